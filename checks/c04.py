"""C04 — conversion never loses the original and is idempotent over run histories.

System (real): neuropixel.NP2Converter (all of it), spikeglx.Reader, mtscomp, WindowGenerator,
SciPy filters.  Every process() call runs in its own forked process with a freshly constructed
converter (one invocation = one process; only the disk carries state across runs), under the
file-system seam.  Faults: io_error / kill / torn write / silent corruption of a completed write,
placed on events of the step's dry run (folder creation, per-shank opens, every window's AP/LF
write, closes, metadata writes, enter/exit of verification, per-shank compression incl. its
chunk writes / rename / unlink, the original's unlink).
"""
import os
import shutil
from pathlib import Path

import numpy as np

from sim.common import rng_of, digest, new_scratch, rm_scratch, setup_imports, sha1_file, snapshot, snap_diff
from sim import world, session, fsseam
from sim.codec import decode_cbin, CbinError
from sim.fsseam import label_class

setup_imports()
import spikeglx  # noqa: E402
import neuropixel  # noqa: E402

PROP = "C04"
LEVEL = "fault_enumeration"
TIERS = {
    "quick": {"runs": 1200, "budget_s": 480, "det_pairs": 3},
    "thorough": {"runs": 100000, "budget_s": 1800, "det_pairs": 6},
}
SIM_TIME_NOTE = ("virtual clock (time.time / time.sleep of the system's process are simulated): simulated_time_s is the time the system spent "
                 "waiting; the unchanged tree never sleeps, so it is 0 unless a changed tree retries or backs off")
RUN_TIMEOUT = 900
SHRINK_BUDGET = 60
RULE = (
    "one run = one seeded history of 1-5 process(overwrite in {F,T}) calls with (post_check, compress, delete_original) drawn per call, "
    "on a seeded world (NP2.4 four-shank with generated channel->shank map incl. interleaved, NP2.4 one shank, NP2.1, NP1, already split; "
    "original as .bin or .cbin; 1-6 windows), each call in its own process; up to two calls carry a fault (io_error, kill, torn write, "
    "interrupt = KeyboardInterrupt, silent corruption) on an event of the call's dry run, label class chosen uniformly; every history ends with a fault-free forced re-run. "
    "After every call: original recoverable byte for byte by the simulator's own means, deletion guard, no-op runs leave the tree identical, "
    "forced re-runs leave a complete valid set of per-shank files. distinct_nontrivial counts distinct (kind, form, options, overwrite, fault kind, "
    "fault site class, tree-shape signature before the call) tuples among calls whose fault fired or whose prior tree was not fresh."
)
COMPONENTS = {
    "real": ["neuropixel.NP2Converter (process, _prepare_files_*, _split2shanks, _ind2save, extract_lfp, check_NP24, compress_NP24/NP21, delete_NP24, metadata writers)",
             "neuropixel.NP2Reconstructor (sampled)", "spikeglx.Reader", "mtscomp", "ibldsp.utils.WindowGenerator", "scipy.signal"],
    "stub": ["mtscomp thread pool (inline, seeded order)", "tqdm", "mtscomp config path", "time module seen by the system (virtual clock)",
             "the operator (passes whichever form of the original exists)"],
}
ASSUMPTIONS = [
    "process-level failure model (no fsync/power-loss semantics)",
    "gains are those of the shipped NP2 fixtures, for which the split is exact for all int16 values (other gains are C03's subject)",
    "LFP sample values are not compared (C12); leftover temp files and files of the other form from earlier runs are not counted",
    "a non-forced retry over the debris of an interrupted run is only required to change nothing if it reports having done nothing",
]

STEM = "_spikeglx_ephysData_g0_t0.imec0"
UUID = ".5f1e8a60-7c1d-4b6e-9a55-0b7f0c3d2e19"     # archive naming: a UUID between the band token and the extension
LABEL = "probe00"
EVENT_METHODS = ("check_NP24", "compress_NP24", "compress_NP21", "delete_NP24", "_writemetadata_ap",
                 "_writemetadata_lf", "_closefiles", "_prepare_files_NP24", "_prepare_files_NP21")


# ---------------------------------------------------------------------------------------------
# the system's process

def instrument():
    """enter/exit events of the converter's phases (kill-only sites; no I/O there)."""
    cls = neuropixel.NP2Converter

    def wrap(fn, name):
        def w(self, *a, **k):
            fsseam.event("enter", name, can_error=False)
            r = fn(self, *a, **k)
            fsseam.event("exit", name, can_error=False)
            return r
        w.__name__ = fn.__name__
        return w

    for name in EVENT_METHODS:
        fn = cls.__dict__.get(name)
        if fn is not None and not getattr(fn, "_sim", False):
            nf = wrap(fn, name)
            nf._sim = True
            setattr(cls, name, nf)


def do_step(step, root):
    if step.get("prelude_ap"):
        # earlier in the same process: another recording of the SAME probe (same serial number, same imro file name) with
        # another site-to-shank layout was converted (a loop over sessions); not a fault site, not judged
        was = fsseam.SIM.active
        fsseam.SIM.active = False
        try:
            pc = neuropixel.NP2Converter(Path(step["prelude_ap"]), post_check=False, delete_original=False, compress=False)
            pc.init_params(nwindow=step["nwindow"])
            pc.process(overwrite=True)
            pc.sr.close()
        finally:
            fsseam.SIM.active = was
    ap = Path(root) / step["ap_file"]
    conv = neuropixel.NP2Converter(ap, post_check=step["post_check"], delete_original=step["delete_original"],
                                   compress=step["compress"])
    trial = None
    if step.get("pre_trial"):
        # the same converter object is first used for a trial conversion of the first samples into "_trial" folders
        # (original kept, nothing compressed), then re-initialised for the real run
        opts = (conv.delete_original, conv.compress)
        conv.delete_original, conv.compress = False, False
        conv.init_params(nsamples=int(step["pre_trial"]), nwindow=step["nwindow"], extra="_trial")
        trial = int(conv.process(overwrite=True))
        conv.delete_original, conv.compress = opts
    conv.init_params(nwindow=step["nwindow"], extra=step.get("extra") or None, nshank=step.get("nshank") or None)
    pre = None
    if step.get("pre_noop_call"):
        # the same converter object is first asked for a plain (non-forced) run over existing output
        s0 = snapshot(root)
        st0 = conv.process(overwrite=False)
        pre = {"status": int(st0), "changed": [d[0] for d in snap_diff(s0, snapshot(root))][:6]}
    first_exc = None
    if step.get("retry_new_object"):
        # the call fails with an exception (the injected fault is one-shot); the calling script catches it and forces a
        # re-run with a NEW converter object in the same interpreter (a retry loop): a fresh object starts from the disk,
        # whatever the failed one still holds (open handles, registered exit handlers) must not hurt the new run's output
        try:
            status = conv.process(overwrite=step["overwrite"])
        except (Exception, KeyboardInterrupt) as e:
            first_exc = type(e).__name__
            ap2 = ap if ap.exists() else (ap.with_suffix(".cbin") if ap.with_suffix(".cbin").exists() else ap)
            conv = neuropixel.NP2Converter(ap2, post_check=step["post_check"], delete_original=step["delete_original"], compress=step["compress"])
            conv.init_params(nwindow=step["nwindow"], extra=step.get("extra") or None, nshank=step.get("nshank") or None)
            status = conv.process(overwrite=True)
    else:
        status = conv.process(overwrite=step["overwrite"])
    post = None
    if step.get("post_noop_call") and status == 1 and Path(root, step["ap_file"]).exists():
        # ... and afterwards the same object is asked again for a plain run: must do nothing
        s0 = snapshot(root)
        st1 = conv.process(overwrite=False)
        post = {"status": int(st1), "changed": [d[0] for d in snap_diff(s0, snapshot(root))][:6]}
    again = None
    if step.get("repeat_forced") and status == 1 and Path(root, step["ap_file"]).exists():
        # ... or for a second WRITING run: forced re-run on the same object
        again = int(conv.process(overwrite=True))
    files = None
    if status == 1:
        try:
            lst = conv.get_processed_files_NP24() if conv.np_version == "NP2.4" else conv.get_processed_files_NP21()
            files = [os.path.relpath(p, root) for p in lst]
        except Exception as e:
            files = ["<raised " + type(e).__name__ + ">"]
    return {"status": int(status), "pre": pre, "post": post, "again": again, "files": files, "trial": trial, "first_exc": first_exc}


def eligible(label):
    return True


# ---------------------------------------------------------------------------------------------

def gen_plan(seed, tier="quick"):
    return {"property": PROP, "seed": seed, "auto": True, "tier": tier}


class Violation(Exception):
    def __init__(self, clause, sig, detail):
        self.clause, self.sig, self.detail = clause, sig, detail


def _gen_world(r):
    kind = r.choice(["NP24", "NP24", "NP24", "NP24", "NP24_1sh", "NP21", "NP21", "NP1", "split"])
    nap = r.choice([4, 8, 8, 12, 16, 32])
    w = {"kind": kind, "form": r.choice(["bin", "bin", "cbin"]), "nap": nap,
         "ns": r.choice([1000, 1300, 2000, 3000, 3001, 4500, 6000, r.randrange(1000, 6000)]),
         "data_seed": r.randrange(1 << 30)}
    if kind in ("NP24", "split"):
        w["shank_of"] = world.gen_shank_of(r, nap, 4 if nap >= 4 else 2)
    elif kind == "NP24_1sh":
        w["shank_of"] = world.gen_shank_of(r, nap, 1)
    else:
        w["shank_of"] = None
    w["nwindow"] = r.choice([1008, 1200, 1500, 2400, 3600, 6000])
    if r.random() < 0.25:      # length an exact number of window steps (+-1)
        k = r.randrange(0, 4)
        w["ns"] = max(1000, k * (w["nwindow"] - 576) + w["nwindow"] + r.choice([-1, 0, 0, 1]))
    if r.random() < 0.04:      # a few seconds of recording on few channels (thresholds expressed in seconds)
        w["ns"] = r.choice([60001, 66000, 90003])
        w["nap"] = 4
        w["nwindow"] = r.choice([3600, 6000])
        if w.get("shank_of") is not None:
            w["shank_of"] = world.gen_shank_of(r, 4, len(set(w["shank_of"])) if len(set(w["shank_of"])) > 1 else 1)
    elif r.random() < 0.15:      # length an exact number of verification blocks (the post-check reads blocks of nwindow samples without overlap) +-1
        w["ns"] = max(1000, min(6001, r.randrange(1, 5) * w["nwindow"] + r.choice([-1, 0, 1, 1])))
    w["extra"] = r.choice(["", "", "_x"])        # suffix of the shank folder names (init_params(extra=...))
    w["orig_chunk"] = r.choice([0.02, 0.05, 1.0])
    # the original's metadata may disagree with the file (stale header of a crashed acquisition: fewer frames announced than
    # present; truncated copy: more announced than present).  The reader exposes the frames present (C11); the converter
    # must split, verify and - if asked - delete on the strength of ALL of them
    w["meta_claim"] = r.choice([None] * 9 + ["fewer", "more"]) if kind != "split" else None
    # a STALE compressed copy (of an earlier transfer: same shape, other content) sits next to the uncompressed original:
    # whatever the converter does with it, the original handed in must stay recoverable
    w["time_4dec"] = r.random() < 0.25      # the duration written with four decimals, as the acquisition software does (the exact count is then only in the size)
    w["prelude_conv"] = r.random() < 0.12   # an earlier conversion in the same process: same probe (serial), another site-to-shank layout
    w["flip_sites"] = r.random() < 0.2            # a channel map numbered from the top of the probe downwards
    w["underscore_names"] = r.random() < 0.08     # m1_g0_t0_imec0_ap.bin: the band token without the dots
    w["uuid_names"] = r.random() < 0.12     # *.imec0.ap.<uuid>.bin, as files are named on the archive
    w["extremes"] = r.random() < 0.3      # corners of int16 and runs of zeros in the content
    w["stale_cbin"] = kind in ("NP21", "NP24", "NP24_1sh") and w["form"] == "bin" and w["meta_claim"] is None and r.random() < 0.15
    return w


def _gen_step(r, nfaults, first):
    st = {"op": "process", "overwrite": r.random() < (0.35 if first else 0.5),
          "post_check": r.random() < 0.7, "compress": r.random() < 0.6, "delete_original": r.random() < 0.35}
    want = nfaults < 2 and r.random() < 0.6
    st["fault"] = {"auto": True, "rseed": r.randrange(1 << 30)} if want else None
    if r.random() < 0.08:
        # only some of the shanks are extracted (init_params(nshank=[...])): the output can then never be
        # verified identical to the original, so the original must survive whatever the options say
        st["nshank_frac"] = r.random()
    if st["fault"] is None and r.random() < 0.2:
        st["post_noop_call"] = True
    elif st["fault"] is None and r.random() < 0.15:
        st["repeat_forced"] = True
    if not first and r.random() < 0.15:
        # two calls on ONE converter object: a plain run (expected to do nothing over complete output), then this step's call
        st["pre_noop_call"] = True
        st["overwrite"] = True
        st["fault"] = None
    if st["fault"] is not None and r.random() < 0.2:
        # the fault is delivered as an exception, caught by the calling script, which forces a re-run with a NEW converter
        # object in the same interpreter (retrying on the SAME object was tried and withdrawn as a false alarm, DESIGN 8.2)
        st["retry_new_object"] = True
        st["fault"] = dict(st["fault"], kinds=["io_error", "short", "interrupt"], no_persistent=True)
        st["delete_original"] = False
    if st["fault"] is None and not st.get("pre_noop_call") and r.random() < 0.1:
        # one converter object: trial conversion of the first samples, then init_params() again and the real run
        st["pre_trial"] = r.choice([600, 1000, 1200])
    if nfaults < 2 and r.random() < 0.12:
        # verification-targeted: a completed AP write is silently corrupted while the options ask
        # for verify-then-delete; a real verification must refuse to delete
        st.update({"post_check": True, "delete_original": True})
        if r.random() < 0.4:
            # ... or a chunk of a shank's compressed file, after the split was verified
            st["compress"] = True
            st["fault"] = {"auto": True, "rseed": r.randrange(1 << 30), "kinds": ["corrupt"], "only": "write:.imec0.ap.cbin_tmp"}
        else:
            st["fault"] = {"auto": True, "rseed": r.randrange(1 << 30), "kinds": ["corrupt"], "only": "tofile:.imec0.ap.bin"}
    return st


# ---------------------------------------------------------------------------------------------

class World:
    def __init__(self, base, w, seed):
        self.base = base
        self.root = base / "w"
        self.cfg = base / "mtscomp.json"
        session.write_config(self.cfg, {"n_threads": 1 + seed % 3, "cache_size": 1 + seed % 4})
        self.w = w
        kind = w["kind"]
        if w.get("shank_of") is not None and len(w["shank_of"]) != w["nap"]:
            raise RuntimeError("inconsistent world: shank_of does not match nap (harness bug)")
        fixture = {"NP24": "NP24", "NP24_1sh": "NP24", "split": "NP24", "NP21": "NP21", "NP1": "NP1"}[kind]
        self.fixture = fixture
        self.fs = world.meta_fs(fixture)
        self.nap = w["nap"]
        self.nc = self.nap + 1
        self.O = world.make_data(w["data_seed"], w["ns"], w["nap"], extremes=bool(w.get("extremes")))
        self.pdir = self.root / LABEL
        claimed = None
        if w.get("meta_claim") == "fewer":
            claimed = max(1, w["ns"] - max(1, w["ns"] // 3))
        elif w.get("meta_claim") == "more":
            claimed = w["ns"] + max(1, w["ns"] // 4)
        world.write_recording(self.pdir, STEM, fixture, self.O, shank_of=w["shank_of"], claimed_ns=claimed,
                              time_decimals=(4 if w.get("time_4dec") else None), flip_sites=bool(w.get("flip_sites")))
        self.U = UUID if (w.get("uuid_names") and kind != "split") else ""
        self.underscore = bool(w.get("underscore_names")) and kind != "split" and not self.U     # band token written "_ap" instead of ".ap."
        self.bin = self.pdir / self.fn("ap", ".bin")
        self.cbin = self.pdir / self.fn("ap", ".cbin")
        self.ch = self.pdir / self.fn("ap", ".ch")
        self.meta = self.pdir / self.fn("ap", ".meta")
        if self.U or self.underscore:
            for ext in ("bin", "meta"):
                (self.pdir / f"{STEM}.ap.{ext}").rename(self.pdir / self.fn("ap", "." + ext))
        if kind == "split":
            self._make_split()
        if w["form"] == "cbin":
            sr = spikeglx.Reader(self.bin, sort=False)
            sr.compress_file(keep_original=False, chunk_duration=w["orig_chunk"], n_threads=1)
            sr.close()
        if w.get("stale_cbin"):
            good = self.bin.read_bytes()
            world.make_data(w["data_seed"] ^ 0x0F0F, w["ns"], w["nap"]).tofile(self.bin)
            sr = spikeglx.Reader(self.bin, sort=False)
            sr.compress_file(keep_original=True, n_threads=1)          # the dependency's defaults, as the converter would use
            sr.close()
            self.bin.write_bytes(good)
            import os as _os
            st_ = self.cbin.stat()
            _os.utime(self.bin, ns=(st_.st_atime_ns, st_.st_mtime_ns - 5_000_000_000))      # the re-transferred .bin is not newer than the stale copy
        self.meta_sha = sha1_file(self.meta)
        self.prelude_ap = None
        if w.get("prelude_conv") and kind in ("NP24", "NP24_1sh"):
            so = list(w["shank_of"])
            other = [(x + 1) % 4 for x in so] if len(set(so)) > 1 else [i % 4 for i in range(len(so))]
            Dp = world.make_data(w["data_seed"] ^ 0x7171, 1200, w["nap"])
            self.prelude_ap = world.write_recording(base / "prelude" / LABEL, STEM, fixture, Dp, shank_of=other)
        # expected shanks: {shank number: channel indices (ascending) + sync}
        self.shanks = {}
        if kind in ("NP24", "NP24_1sh"):
            so = np.array(w["shank_of"])
            for sh in sorted(set(w["shank_of"])):
                self.shanks[int(sh)] = np.r_[np.where(so == sh)[0], self.nap]

    def fn(self, band, ext):
        """file name of a band ('ap' / 'lf') with extension ext ('.bin', '.cbin', '.ch', '.meta') in this world's naming"""
        if getattr(self, "underscore", False):
            return f"m1_g0_t0_imec0_{band}{ext}"
        return f"{STEM}.{band}{self.U}{ext}"

    def _make_split(self):
        """already-split input: the AP output of an earlier conversion handed back in."""
        so = np.array(self.w["shank_of"])
        sh = int(sorted(set(self.w["shank_of"]))[0])
        tmp = self.base / "mk"
        shutil.copytree(self.root, tmp)
        session.run_step(tmp, do_step, {"ap_file": f"{LABEL}/{STEM}.ap.bin", "post_check": False,
                                        "delete_original": False, "compress": False, "nwindow": 2400,
                                        "overwrite": False}, None, self.cfg, 0)
        src = tmp / (LABEL + chr(97 + sh))
        want = self.w["ns"] * (int(np.sum(so == sh)) + 1) * 2
        f0 = src / f"{STEM}.ap.bin"
        if not f0.exists() or f0.stat().st_size != want:
            raise Violation("C04.S4", "split-world:first-run-output", f"a plain first conversion (no options) of a {self.w['ns']}-sample recording left "
                            f"{f0.name} with {f0.stat().st_size if f0.exists() else 'no'} bytes for shank {sh}, expected {want}")
        shutil.rmtree(self.pdir)
        self.pdir.mkdir()
        for p in src.glob("*.ap.*"):
            shutil.copy(p, self.pdir / p.name)
        shutil.rmtree(tmp)
        self.O = np.fromfile(self.bin, dtype=np.int16).reshape(self.w["ns"], -1)
        self.nc = self.O.shape[1]
        self.nap = self.nc - 1

    # -- observation helpers --------------------------------------------------------------
    def orig_path(self):
        if self.bin.exists():
            return self.bin
        if self.cbin.exists():
            return self.cbin
        return None

    def orig_ok(self):
        """which forms of the original hold O right now"""
        ok = []
        if self.bin.exists() and self.bin.stat().st_size == self.O.nbytes and np.array_equal(
                np.fromfile(self.bin, dtype=np.int16).reshape(self.O.shape), self.O):
            ok.append("bin")
        if self.cbin.exists():
            try:
                d = decode_cbin(self.cbin, self.ch)
                if d.shape == self.O.shape and np.array_equal(d, self.O):
                    ok.append("cbin")
            except CbinError:
                pass
        return ok

    def shank_dir(self, sh):
        return self.root / (LABEL + chr(97 + sh) + (self.w.get("extra") or ""))

    def _load_ap(self, d, want_cols):
        """AP data of a shank folder by the simulator's own means (.bin bytes or decoded .cbin)."""
        outs = []
        b = d / self.fn("ap", ".bin")
        c = d / self.fn("ap", ".cbin")
        if b.exists() and b.stat().st_size == self.w["ns"] * want_cols * 2:
            outs.append(np.fromfile(b, dtype=np.int16).reshape(-1, want_cols))
        if c.exists():
            try:
                a = decode_cbin(c)
                if a.shape == (self.w["ns"], want_cols):
                    outs.append(a)
            except CbinError:
                pass
        return outs

    def gather_from_shanks(self):
        """True iff the per-shank AP files reproduce O byte for byte through the model's map:
        AP channels from every shank, the sync column from the first shank (what a reassembly
        uses; the other shanks' copies of the sync column are redundant)."""
        if not self.shanks:
            return False
        rec = np.zeros_like(self.O)
        first = True
        for sh, chns in self.shanks.items():
            ok = False
            for a in self._load_ap(self.shank_dir(sh), len(chns)):
                if np.array_equal(a[:, :-1], self.O[:, chns[:-1]]) and (not first or np.array_equal(a[:, -1], self.O[:, -1])):
                    ok = True
                    rec[:, chns[:-1]] = a[:, :-1]
                    if first:
                        rec[:, -1] = a[:, -1]
                    break
            if not ok:
                return False
            first = False
        return np.array_equal(rec, self.O)

    def tree_sig(self):
        """shape signature of the output tree (which files exist, empty/non-empty)"""
        sig = []
        for p in sorted(self.root.rglob("*")):
            if p.is_file():
                rel = os.path.relpath(p, self.root)
                if rel.startswith(LABEL + "/") and ".ap." in rel and not rel.endswith((".cbin_tmp",)):
                    if rel.split("/")[1].replace(STEM, "").replace(self.U, "") in (".ap.bin", ".ap.meta", ".ap.cbin", ".ap.ch"):
                        continue
                sig.append(rel.replace(STEM, "").replace(self.U, "") + ("" if p.stat().st_size else ":empty"))
        return sig


def run_plan(plan):
    base = new_scratch("c04")
    try:
        return _run(plan, base)
    finally:
        rm_scratch(base)


def _run(plan, base):
    auto = bool(plan.get("auto"))
    r = rng_of(plan["seed"])
    tier = plan.get("tier", "quick")
    if auto:
        w = _gen_world(r)
        nsteps = r.choice([1, 2, 2, 3, 3, 4, 5] + ([6, 7] if tier == "thorough" else []))
        if tier == "thorough" and r.random() < 0.2:      # larger worlds in the thorough tier
            w["nap"] = r.choice([48, 64])
            if w.get("shank_of") is not None:
                w["shank_of"] = world.gen_shank_of(r, w["nap"], len(set(w["shank_of"])) if len(set(w["shank_of"])) > 1 else 1)
            w["ns"] = r.choice([8000, 12001])
        steps_in = None
    else:
        w = plan["world"]
        steps_in = plan["steps"]
        nsteps = len(steps_in)
    session.pin_dependencies(base / "mtscomp.json", pool_seed=plan["seed"] % 1000)
    log = []
    steps_out = []
    stats = {"faults": {}, "sites": {}, "probes": {}, "outcomes": {}, "distinct": [], "steps": 0}
    model = {"completed": False, "dirty": False, "consumed": False, "opts_last": None}
    nfaults = 0
    viol = None

    def bump(group, key):
        stats[group][key] = stats[group].get(key, 0) + 1

    try:
        W = World(base, w, plan["seed"])      # building an already-split world runs the converter once: it may fail the property too
        i = 0
        while i < nsteps and not model["consumed"]:
            st = _gen_step(r, nfaults if tier != "thorough" else nfaults - 1, i == 0) if auto else dict(steps_in[i])
            i += 1
            steps_out.append(st)
            fired = _exec_step(W, st, model, log, stats, bump, plan["seed"])
            nfaults += 1 if fired else 0
        # closing fault-free forced run: liveness within one call once faults stop
        if not model["consumed"] and W.w["kind"] in ("NP24", "NP24_1sh", "NP21") and W.orig_path() is not None \
                and plan.get("closing", True):
            cr = rng_of(plan["seed"] ^ 0x5A5A)
            st = {"op": "process", "overwrite": True, "post_check": cr.random() < 0.7, "compress": cr.random() < 0.6,
                  "delete_original": False, "fault": None, "closing": True}
            _exec_step(W, st, model, log, stats, bump, plan["seed"])
            bump("probes", "closing_forced_run")
    except Violation as v:
        viol = {"clause": v.clause, "sig": v.sig, "detail": v.detail}
    xplan = {"property": PROP, "seed": plan["seed"], "world": w, "steps": steps_out}
    for key in ("closing", "sweep_of"):
        if key in plan:
            xplan[key] = plan[key]
    stats["outcomes"]["violation" if viol else "held"] = 1
    step_events = stats.pop("_step_events", [])
    if plan.get("sweep_of"):
        stats["probes"]["crash_point_sweep_plans"] = 1
    out = {"violation": viol, "stats": stats, "digest": digest(log), "plan": xplan,
           "sample": {"world": {k: v for k, v in w.items() if k != "shank_of"}, "shank_of": w.get("shank_of"), "history": log[:8]}}
    if plan.get("want_events"):
        out["step_events"] = step_events
    return out


def _exec_step(W, st, model, log, stats, bump, seed):
    kind = W.w["kind"]
    orig = W.orig_path()
    if orig is None:
        raise Violation("C04.S1", "original-missing-before-step", "no original to hand to the converter")
    form_before = "bin" if orig == W.bin else "cbin"
    st = st  # mutated in place (resolved fault, ap_file)
    st["ap_file"] = os.path.relpath(orig, W.root)
    st["nwindow"] = W.w["nwindow"]
    st["extra"] = W.w.get("extra") or ""
    st["prelude_ap"] = str(W.prelude_ap) if W.prelude_ap else None
    if W.prelude_ap:
        bump("probes", "earlier_conversion_same_probe_other_layout_same_process")
    pool_seed = seed % 1000
    st.pop("nshank", None)
    if st.get("nshank_frac") is not None and kind == "NP24" and len(W.shanks) >= 2:
        keys = sorted(W.shanks)
        k = 1 + int(st["nshank_frac"] * (len(keys) - 1))
        st["nshank"] = keys[:k] if st["nshank_frac"] < 0.5 else keys[-k:]
        if len(st["nshank"]) == len(keys):
            st["nshank"] = keys[:-1]
        for key in ("post_noop_call", "repeat_forced", "pre_noop_call"):
            st[key] = False
    if st.get("repeat_forced") and ((st.get("fault") and not st["fault"].get("covered_by_post_check")) or W.w["kind"] not in ("NP24", "NP24_1sh", "NP21") or st.get("delete_original")
                                    or (W.w["kind"] == "NP21" and st.get("compress") and W.orig_path() == W.bin)):
        st["repeat_forced"] = False      # the original must still be there, in the same form, for the second call
    if st.get("post_noop_call") and (st.get("fault") or W.w["kind"] not in ("NP24", "NP24_1sh", "NP21") or st.get("delete_original")):
        st["post_noop_call"] = False
    if st.get("pre_noop_call") and (st.get("fault") or not (model["completed"] and not model["dirty"])):
        st["pre_noop_call"] = False      # only meaningful over complete earlier output, and fault-free
    if st.get("pre_trial") and (st.get("fault") or kind not in ("NP24", "NP24_1sh") or st.get("nshank") or st["pre_trial"] >= W.w["ns"]):
        st["pre_trial"] = None
    fault = st.get("fault")
    if fault and fault.get("auto"):
        dr = session.dry_run(W.root, do_step, st, W.cfg, pool_seed, pre=instrument)
        fr = rng_of(fault["rseed"])
        only = fault.get("only")
        elig = (lambda lab: (label_class(lab).replace(W.U, "") if W.U else label_class(lab)) == only) if only else eligible
        nop = fault.get("no_persistent")
        fault = session.place_fault(fr, dr["events"], elig, kinds=tuple(fault.get("kinds") or ("kill", "kill", "io_error", "torn", "corrupt", "interrupt", "short", "short")),
                                    occ=fault.get("occ"), tear=fault.get("tear"))
        if fault and nop:
            fault.pop("persistent", None)
        if fault and st["fault"].get("covered_by_post_check"):
            fault["covered_by_post_check"] = True
        st["fault"] = fault
    before = snapshot(W.root)
    sig_before = W.tree_sig()
    fresh = not any(k.startswith(LABEL + c) and "_trial/" not in k for k in before for c in "abcd") and not any((".lf." in k or "_lf." in k) and "_trial/" not in k for k in before)
    res = session.run_step(W.root, do_step, st, fault, W.cfg, pool_seed, pre=instrument)
    stats["steps"] += len(res["events"])
    stats["sim_time"] = stats.get("sim_time", 0.0) + float(res.get("clock") or 0.0)      # simulated seconds the system spent sleeping / waiting
    stats.setdefault("_step_events", []).append(res["events"])
    after = snapshot(W.root)
    fired = res["fired"] if res["fired"] and res["fired"]["kind"] in ("kill", "torn", "io_error", "corrupt", "interrupt", "short") else None
    out = res["outcome"]
    status = out["ok"]["status"] if out and "ok" in out else None
    exc = out.get("exc") if out and "exc" in out else None
    opts = f"pc{int(st['post_check'])}c{int(st['compress'])}d{int(st['delete_original'])}"
    sig0 = f"{kind}:{form_before}:ow{int(st['overwrite'])}:{opts}"
    log.append([kind, form_before, int(st["overwrite"]), opts, fired["kind"] if fired else None,
                label_class(fired["label"]) if fired else None, status, exc,
                sorted((k, v[0]) for k, v in after.items())])
    ctx = (f"kind={kind} form={form_before} step={ {k: st[k] for k in ('overwrite', 'post_check', 'compress', 'delete_original', 'nwindow')} } "
           f"fault={fired} outcome={out} tree_before={sig_before} tree_after={W.tree_sig()}")
    if fired:
        bump("faults", fired["kind"])
        lc = label_class(fired["label"])
        bump("sites", lc)
        if fired["kind"] in ("kill", "torn") and lc.startswith("mkdir"):
            bump("probes", "kill_between_shank_folder_creations")
        if lc in ("enter:check_NP24", "exit:check_NP24"):
            bump("probes", "kill_around_verification")
        if fired["kind"] == "kill" and lc.startswith("unlink"):
            bump("probes", "kill_before_an_unlink")
        if fired["kind"] == "corrupt":
            bump("probes", "silent_corruption_of_a_write")
    if fired or not fresh:
        stats["distinct"].append(f"{kind}|{form_before}|{opts}|{int(st['overwrite'])}|{fired['kind'] if fired else '-'}|"
                                 f"{label_class(fired['label']) if fired else '-'}|{digest(sig_before)[:8]}")
    if st["overwrite"] and fresh:
        bump("probes", "overwrite_on_fresh_directory")
    if st["delete_original"] and not st["post_check"]:
        bump("probes", "delete_original_without_post_check")
    if form_before == "cbin":
        bump("probes", "cbin_original")
    if W.w.get("meta_claim"):
        bump("probes", "original_metadata_disagrees_with_file_" + W.w["meta_claim"])
    if W.w.get("stale_cbin"):
        bump("probes", "stale_compressed_copy_next_to_the_original")

    # ---- S1 recoverability + S2 deletion guard (every post-state)
    ok_forms = W.orig_ok()
    if not W.meta.exists():
        raise Violation("C04.S2", f"{sig0}:{'fault:' + fired['kind'] if fired else 'nofault'}:orig-meta-removed", "the original's .meta was removed | " + ctx)
    if sha1_file(W.meta) != W.meta_sha and W.orig_path() is not None:
        raise Violation("C04.S2", f"{sig0}:orig-meta-changed", "the original's .meta changed | " + ctx)
    gone = not (W.bin if form_before == "bin" else W.cbin).exists()
    via_shanks = None
    if not ok_forms:
        via_shanks = W.gather_from_shanks()
        if not via_shanks:
            raise Violation("C04.S1", f"{sig0}:{'fault:' + fired['kind'] if fired else 'nofault'}:unrecoverable",
                            "the original samples are no longer recoverable byte for byte (original gone/changed and shank files do not reproduce it) | " + ctx)
    if gone:
        if kind in ("NP24", "NP24_1sh"):
            verified = "exit:check_NP24" in res["events"]
            if not (st["delete_original"] and st["post_check"] and verified):
                raise Violation("C04.S2", f"{sig0}:deleted-unverified",
                                f"original removed although delete_original={st['delete_original']} post_check={st['post_check']} verification_returned={verified} | " + ctx)
            if via_shanks is None:
                via_shanks = W.gather_from_shanks()
            if not via_shanks:
                raise Violation("C04.S2", f"{sig0}:deleted-not-identical", "original removed but shank files are not bit-identical to it | " + ctx)
            model["consumed"] = True
        elif kind == "NP21":
            if not (st["compress"] and form_before == "bin" and "cbin" in ok_forms):
                raise Violation("C04.S2", f"{sig0}:np21-removed", "NP2.1 original removed without a complete lossless .cbin in place | " + ctx)
        else:
            raise Violation("C04.S2", f"{sig0}:removed", f"original of kind {kind} was removed | " + ctx)

    # ---- statuses / idempotence
    pre = out["ok"].get("pre") if out and "ok" in out else None
    if pre is not None:
        bump("probes", "two_calls_on_one_converter_object")
        if pre["status"] != 0 or pre["changed"]:
            raise Violation("C04.S3", f"{sig0}:same-object-noop", f"plain run over complete output on the same converter object returned {pre['status']} and changed {pre['changed']} | " + ctx)
    post = out["ok"].get("post") if out and "ok" in out else None
    if post is not None:
        bump("probes", "two_calls_on_one_converter_object")
        if post["status"] != 0 or post["changed"]:
            raise Violation("C04.S3", f"{sig0}:same-object-rerun", f"plain run on the same converter object right after a completed run returned {post['status']} and changed {post['changed']} | " + ctx)
    if out and "ok" in out and out["ok"].get("trial") is not None:
        bump("probes", "trial_run_then_real_run_on_one_converter_object")
    again = out["ok"].get("again") if out and "ok" in out else None
    if again is not None:
        bump("probes", "two_writing_calls_on_one_converter_object")
        if again != 1:
            raise Violation("C04.S4", f"{sig0}:same-object-forced-status", f"forced re-run on the same converter object returned {again} | " + ctx)
    changed = [c for c in snap_diff(before, after) if "_trial/" not in c[0]]      # the step's own trial conversion is not the judged call
    if status in (0, -1) and changed:
        what = "prior-complete" if model["completed"] and not model["dirty"] else ("fresh" if fresh else "debris")
        raise Violation("C04.S3", f"{kind}:ow{int(st['overwrite'])}:status{status}-but-changed:{what}",
                        f"process returned {status} (did nothing) but the tree changed: {[c[0] for c in changed][:8]} | " + ctx)
    forced = st["overwrite"]
    if out and "ok" in out and out["ok"].get("first_exc"):
        bump("probes", "failed_call_then_forced_rerun_with_a_new_object_in_the_same_interpreter")
        forced = True           # the judged call is the forced re-run that followed the failed one
    partial = bool(st.get("nshank"))
    if partial:
        bump("probes", "partial_shank_run")
        if gone:
            raise Violation("C04.S2", f"{sig0}:partial-run-deleted-original", f"only shanks {st['nshank']} were extracted, yet the original was removed | " + ctx)
        model["dirty"] = True          # an incomplete set on purpose: later plain runs see debris
    elif (not fired or (fired["kind"] in ("io_error", "short", "interrupt") and status == 1)) and exc is None:
        # (a fault that fired but was absorbed - a retry that succeeded, a handler that swallowed it - leaves a run that
        # REPORTS SUCCESS: it must have produced the complete valid output like any other successful run)
        if fired:
            bump("probes", "fault_absorbed_run_reported_success")
        if kind == "NP1" and status != -1:
            raise Violation("C04.S5", f"{sig0}:np1-status", f"NP1 returned {status} | " + ctx)
        if kind == "split" and status != 0:
            raise Violation("C04.S5", f"{sig0}:split-status", f"already-split input returned {status} | " + ctx)
        if kind in ("NP24", "NP24_1sh", "NP21"):
            if not forced and model["completed"] and not model["dirty"] and status != 0:
                raise Violation("C04.S3", f"{sig0}:rerun-not-noop", f"repeated run without overwrite returned {status} | " + ctx)
            if forced and status != 1:
                raise Violation("C04.S4", f"{sig0}:forced-status", f"forced re-run returned {status} | " + ctx)
            if fresh and status != 1:
                raise Violation("C04.S4", f"{sig0}:first-run-status", f"first run on a fresh directory returned {status} | " + ctx)
            if status == 1:
                _check_outputs(W, st, sig0, ctx)
                listed = out["ok"].get("files")
                if listed is not None:
                    missing = [f for f in listed if not (W.root / f).exists()]
                    if missing:
                        raise Violation("C04.S4", f"{sig0}:listed-file-missing", f"the converter lists output files that do not exist: {missing[:4]} | " + ctx)
                model["completed"] = True
                model["dirty"] = False
                model["opts_last"] = opts
    elif (fired and fired["kind"] == "corrupt" and exc is None and status == 1 and again == 1 and st["post_check"]
          and (st.get("fault") or {}).get("covered_by_post_check") and kind in ("NP24", "NP24_1sh")):
        # a byte that the post-check compares was silently corrupted in the second (forced) call on one converter object, yet
        # that call reported success: with verification asked for, a run that reports 1 must have left a valid set
        bump("probes", "corruption_in_forced_rerun_on_same_object_reported_success")
        _check_outputs(W, st, sig0 + ":same-object-forced-unverified", ctx)
    elif not fired and exc is not None:
        # the system failed although no fault was injected
        tolerated = False     # (until session 3 a plain run over the debris of an interrupted run was allowed to raise; the pinned tree never does)
        if not tolerated:
            where = ">".join((out.get("where") or [])[-2:])
            clause = "C04.S4" if (st["overwrite"] or fresh) else "C04.S3"
            prior = "fresh" if fresh else ("complete" if model["completed"] and not model["dirty"] else "debris")
            raise Violation(clause, f"{kind}:ow{int(st['overwrite'])}:c{int(st['compress'])}:raises:{exc}:{prior}",
                            f"fault-free process() raised {exc}: {out.get('msg')} at {where} | " + ctx)
        model["dirty"] = True
    else:
        model["dirty"] = True if changed else model["dirty"]
    return fired is not None


def _check_outputs(W, st, sig0, ctx):
    """S4: complete, valid set of per-shank files after a run that reported 1."""
    kind = W.w["kind"]
    ns = W.w["ns"]
    if kind in ("NP24", "NP24_1sh"):
        targets = [(W.shank_dir(sh), chns) for sh, chns in W.shanks.items()]
    else:
        targets = [(W.pdir, np.arange(W.nc))]
    for d, chns in targets:
        for band in ("ap", "lf"):
            if kind == "NP21" and band == "ap":
                continue
            ext = ".cbin" if st["compress"] else ".bin"
            f = d / W.fn(band, ext)
            m = d / W.fn(band, ".meta")
            rel = os.path.relpath(f, W.root)
            if not f.exists() or not m.exists() or (st["compress"] and not f.with_suffix(".ch").exists()):
                raise Violation("C04.S4", f"{sig0}:missing-output:{band}", f"{rel} (or its .meta/.ch) missing after a run that returned 1 | " + ctx)
            try:
                sr = spikeglx.Reader(f, sort=False, ignore_warnings=True)
            except Exception as e:
                raise Violation("C04.S4", f"{sig0}:output-unreadable:{band}", f"{rel} does not open: {e!r} | " + ctx)
            try:
                if sr.nc != len(chns):
                    raise Violation("C04.S4", f"{sig0}:output-nc:{band}", f"{rel}: nc={sr.nc}, expected {len(chns)} | " + ctx)
                raw = sr._raw
                n = raw.shape[0]
                if not st["compress"] and f.stat().st_size % (2 * len(chns)) != 0:
                    raise Violation("C04.S4", f"{sig0}:output-frames:{band}", f"{rel}: size is not a whole number of frames | " + ctx)
                fsz = sr.meta.get("fileSizeBytes")
                want_sz = (ns if band == "ap" else n) * len(chns) * 2
                if fsz is None or int(fsz) != want_sz:
                    raise Violation("C04.S4", f"{sig0}:output-meta-size:{band}", f"{rel}: its .meta says fileSizeBytes={fsz}, the data hold {want_sz} bytes | " + ctx)
                if band == "lf" and float(sr.meta.get("imSampRate", 0)) != 2500.0:
                    raise Violation("C04.S4", f"{sig0}:output-meta-rate:lf", f"{rel}: LF .meta says imSampRate={sr.meta.get('imSampRate')} | " + ctx)
                if band == "ap":
                    if n != ns:
                        raise Violation("C04.S4", f"{sig0}:output-ns:ap", f"{rel}: {n} samples, original has {ns} | " + ctx)
                    a = np.array(raw[:, :]) if not st["compress"] else np.array(raw[0:ns])
                    if not np.array_equal(a, W.O[:, chns]):
                        bad = int(np.sum(a != W.O[:, chns]))
                        raise Violation("C04.S4", f"{sig0}:output-content:ap", f"{rel}: {bad} samples differ from the original's channels | " + ctx)
                else:
                    if abs(n - ns / 12) > 1:
                        raise Violation("C04.S4", f"{sig0}:output-ns:lf", f"{rel}: {n} LF samples for {ns} AP samples | " + ctx)
            finally:
                sr.close()
    if kind == "NP21" and st["compress"]:
        if "cbin" not in W.orig_ok():
            raise Violation("C04.S4", f"{sig0}:np21-cbin", "NP2.1 original not compressed in place to a complete .cbin | " + ctx)


def _verification_sweep(tier, verif_seed):
    """Verification sweeps: for a seeded NP2.4 world, lengths of exactly m blocks of the post-check (+-1 sample) x one
    silently corrupted byte at the very first / a middle / the very last position of the first and of the last AP window
    write, with verify-then-delete asked for: a verification that skips a boundary block lets the original go."""
    from sim.common import run_seed
    nb = {"quick": 1, "thorough": 4}[tier]
    for b in range(nb):
        s = run_seed(verif_seed, PROP + "-verify", b)
        r = rng_of(s)
        w = _gen_world(r)
        w.update({"kind": "NP24", "form": "bin", "nap": r.choice([4, 8]), "meta_claim": None, "extra": ""})
        w["shank_of"] = world.gen_shank_of(r, w["nap"], 4)
        w["nwindow"] = r.choice([1008, 1200, 1500])
        m = r.choice([1, 2, 3])
        for dn in (-1, 0, 1):
            # the events of one window are the shanks' writes in shank order: -4 = the FIRST shank's write of the last window
            # (its last column is the sync word, which the post-check does compare for the first shank)
            for occ, tear in (("first", 0.0), (-4, 1.0), ("last", 0.5)):
                ww = dict(w, ns=m * w["nwindow"] + dn)
                st = {"op": "process", "overwrite": False, "post_check": True, "compress": False, "delete_original": True,
                      "fault": {"auto": True, "rseed": s % 100000, "kinds": ["corrupt"], "only": "tofile:.imec0.ap.bin", "occ": occ, "tear": tear}}
                yield {"property": PROP, "seed": s, "world": ww, "steps": [st], "closing": False, "sweep_of": 100 + b}
        # a verified run and then a FORCED re-run on the same converter object (original kept); the corrupted byte lands in
        # the SECOND call's output at a position the post-check compares: a verification flag that outlives the run which
        # earned it lets the second call report success over output nobody compared (seeded change C04-r18A)
        for occ, tear in ((-4, 1.0), ("last", 0.5)):
            ww = dict(w, ns=m * w["nwindow"])
            st = {"op": "process", "overwrite": False, "post_check": True, "compress": False, "delete_original": False, "repeat_forced": True,
                  "fault": {"auto": True, "rseed": s % 100000, "kinds": ["corrupt"], "only": "tofile:.imec0.ap.bin", "occ": occ, "tear": tear,
                            "covered_by_post_check": True}}
            yield {"property": PROP, "seed": s, "world": ww, "steps": [st], "closing": False, "sweep_of": 300 + b}
        # a recording of a few seconds (few channels keep it small): thresholds expressed in seconds, not in windows
        for ns_big in ((66001,) if tier == "quick" else (66001, 60000, 127013)):
            for occ, tear in ((-4, 1.0), (-4, 0.5)):
                ww = dict(w, ns=ns_big, nap=4, nwindow=6000, shank_of=[0, 1, 2, 3])
                st = {"op": "process", "overwrite": False, "post_check": True, "compress": False, "delete_original": True,
                      "fault": {"auto": True, "rseed": s % 100000, "kinds": ["corrupt"], "only": "tofile:.imec0.ap.bin", "occ": occ, "tear": tear}}
                yield {"property": PROP, "seed": s, "world": ww, "steps": [st], "closing": False, "sweep_of": 200 + b}


def sweep_plans(tier, verif_seed):
    yield from _verification_sweep(tier, verif_seed)
    yield from _crash_sweep(tier, verif_seed)


def _crash_sweep(tier, verif_seed):
    """Crash-point sweeps: for seeded base histories, EVERY event index of the last call is tried
    once with `kill` (enumeration of the fault axis inside seeded choice of everything else)."""
    from sim.common import run_seed
    nbase = {"quick": 1, "thorough": int(os.environ.get("VERIF_C04_SWEEPS", "28"))}[tier]
    for b in range(nbase):
        s = run_seed(verif_seed, PROP + "-sweep", b)
        r = rng_of(s)
        w = _gen_world(r)
        w["kind"] = r.choice(["NP24", "NP24", "NP24_1sh", "NP21"])
        if w["kind"] == "NP24":
            w["shank_of"] = world.gen_shank_of(r, w["nap"], 4)
        elif w["kind"] == "NP24_1sh":
            w["shank_of"] = world.gen_shank_of(r, w["nap"], 1)
        else:
            w["shank_of"] = None
        w["ns"] = r.choice([1000, 2000, 3000])
        w["nwindow"] = r.choice([1200, 2400])
        steps = []
        if r.random() < 0.5:   # earlier complete output exists
            steps.append({"op": "process", "overwrite": False, "post_check": True, "compress": r.random() < 0.5,
                          "delete_original": False, "fault": None})
        target = {"op": "process", "overwrite": bool(steps) or r.random() < 0.3, "post_check": r.random() < 0.8,
                  "compress": r.random() < 0.6, "delete_original": r.random() < 0.6, "fault": None}
        base = {"property": PROP, "seed": s, "world": w, "steps": steps + [target], "closing": False, "want_events": True}
        res = run_plan(base)
        ev = (res.get("step_events") or [[]])[-1]
        idx = list(range(len(ev)))
        if tier == "quick":
            rr = rng_of(s ^ 1)
            idx = sorted(rr.sample(idx, min(len(idx), 40)))
        for k in idx:
            t = dict(target)
            t["fault"] = {"kind": "kill", "at": k, "label": ev[k]}
            yield {"property": PROP, "seed": s, "world": w, "steps": [dict(x) for x in steps] + [t], "closing": True,
                   "sweep_of": b}


def shrink_candidates(plan):
    steps = plan["steps"]
    for i in range(len(steps)):
        c = dict(plan)
        c["steps"] = steps[:i] + steps[i + 1:]
        yield c
    if plan.get("closing", True):
        c = dict(plan)
        c["closing"] = False
        yield c
    for i, st in enumerate(steps):
        f = st.get("fault")
        if f:
            c = dict(plan)
            c["steps"] = [dict(s) for s in steps]
            c["steps"][i]["fault"] = None
            yield c
            if f.get("kind") in ("torn", "io_error", "corrupt", "interrupt", "short"):
                c = dict(plan)
                c["steps"] = [dict(s) for s in steps]
                c["steps"][i]["fault"] = {"kind": "kill", "at": f["at"], "label": f["label"]}
                yield c
    for i, st in enumerate(steps):
        for key in ("delete_original", "compress", "post_check", "overwrite"):
            if st.get(key):
                c = dict(plan)
                c["steps"] = [dict(s) for s in steps]
                c["steps"][i][key] = False
                if c["steps"][i].get("fault"):
                    c["steps"][i]["fault"] = {"auto": True, "rseed": 7}
                yield c
    w = plan["world"]
    for key, val in (("flip_sites", False), ("underscore_names", False), ("prelude_conv", False), ("uuid_names", False), ("stale_cbin", False), ("meta_claim", None), ("ns", 1000), ("nap", 4), ("form", "bin")):
        if w.get(key) != val:
            c = dict(plan)
            c["world"] = dict(w)
            c["world"][key] = val
            if key == "nap" and w.get("shank_of") is not None:
                so = list(w["shank_of"])[:val]
                if len(set(so)) != len(set(w["shank_of"])):
                    continue        # the smaller world would lose a shank: not the same kind of world
                c["world"]["shank_of"] = so
            c["steps"] = [dict(s, fault=({"auto": True, "rseed": 7} if s.get("fault") else None)) for s in steps]
            yield c
