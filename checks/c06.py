"""C06 — chunked destripe-to-file writes every sample exactly once, for any worker count.

System (real): ibldsp.voltage.decompress_destripe_cbin incl. its worker body, spikeglx.Reader,
saturation, fshift, kfilt/car, interpolate_bad_channels, detect_bad_channels_cbin, SciPy.
Stubs: pyfftw (SciPy stand-in), joblib (SimParallel: seeded baton-passing scheduler, every line of
the worker body is a pre-emption point), `open` in ibldsp.voltage (SimFile: write-extent
history only, no faults).
"""
import os
from pathlib import Path

import numpy as np
import scipy.signal

from sim.common import rng_of, digest, new_scratch, rm_scratch, setup_imports, sha1_file
from sim import world, sched, fsseam, session
from sim.sched import SCHED
from sim.fsseam import SIM

setup_imports()
import spikeglx  # noqa: E402
import ibldsp.voltage as voltage  # noqa: E402

PROP = "C06"
LEVEL = "exploration"
TIERS = {
    "quick": {"runs": 400, "budget_s": 480, "det_pairs": 3},
    "thorough": {"runs": 100000, "budget_s": 1800, "det_pairs": 6},
}
SYSTEM_IN_RUN_PROCESS = True      # the code under test runs in the run process itself: its death by signal is the system's crash
RUN_TIMEOUT = 900
SHRINK_BUDGET = 40
RULE = (
    "one run = one seeded configuration (recording length 1500-40000, batch size in {2560,3072,4096,6144,8192}, 1-8 workers, 8-96 channels, "
    "k-filter/CAR, channel rejection, whitening none/scalar/matrix, padding, sync kept or dropped, append history, saturated stretches incl. "
    "across batch seams) executed once sequentially with one worker (reference) and once with n workers under a seeded schedule (which worker "
    "advances, for how many lines of the worker body, starvation bias, run-to-completion in permuted order ... line-level interleaving, "
    "one task held at a chosen file-touching source line until the others have finished; hold-point sweeps over every such line). "
    "Oracle: output size, write-extent history (union exact, rewritten bytes identical, file never re-created), sync column bit-exact, bytes "
    "equal to the one-worker run, within 1 LSB of batch-wise in-memory destripe, append = concatenation, QC entry counts. "
    "distinct_nontrivial counts distinct schedule-trace digests among runs with >= 2 workers and >= 1 switch between two workers' writes, plus "
    "distinct (ns mod stride, nbatch, workers) geometry classes."
)
COMPONENTS = {
    "real": ["ibldsp.voltage.decompress_destripe_cbin (incl. my_function)", "ibldsp.voltage.saturation/destripe/kfilt/car/interpolate_bad_channels/detect_bad_channels_cbin",
             "ibldsp.fourier.fshift", "spikeglx.Reader", "scipy.signal", "np.memmap/np.save QC files"],
    "stub": ["pyfftw (scipy.fft single-precision stand-in, /verif/stubs/pyfftw)", "joblib.Parallel/delayed (SimParallel: threads stepped one at a time; closure data deep-copied per task to emulate process isolation)",
             "open() in ibldsp.voltage (SimFile: records write extents)", "joblib.cpu_count"],
}
ASSUMPTIONS = [
    "threads stand in for joblib's worker processes; arguments are pickled per task and closure data deep-copied per task, module globals are shared",
    "pyfftw is a stand-in: single-precision FFTW numerics are not those of production; comparison with float64 in-memory destriping allows 1 LSB",
    "stores through np.memmap (saturation QC file) are not events; the saturation flags are compared with the one-worker run except at batch-end samples (legitimately last-writer-wins there); RMS/timestamp files by entry count",
    "world preparation (compression of the input, splitting into shank files, counting channels inside the brain) and the oracle's geometry run in forked processes, so that the harness neither warms nor consults per-process state of the system",
    "recordings have at least 1500 samples (> taper length 1024)",
]

T = 1024  # SAMPLES_TAPER (fixed in the code)
STEM = "rec_g0_t0.imec0"


def gen_plan(seed, tier="quick"):
    r = rng_of(seed)
    fixture = r.choice(["NP1", "NP1", "NP21", "NP24", "NP24_shank"])     # NP24_shank: the input is one shank file of a split four-shank recording
    nap = r.choice([8, 8, 12, 16, 16, 24, 32, 64, 96]) if r.random() < 0.9 else r.choice([8, 16])
    if fixture == "NP24_shank":
        nap = min(nap, 32)
    nbatch = r.choice([2560, 3072, 4096, 4096, 6144, 8192])
    nbatch_default = r.random() < 0.04     # nbatch=None: the default 65536, i.e. one batch for these recordings
    if nbatch_default:
        nbatch = 65536
    stride = nbatch - 2 * T
    mode = r.random()
    if mode < 0.25:
        ns = r.randrange(1500, 2 * nbatch)                       # shorter than one/two batches
    elif mode < 0.5:
        k = r.choice([1, 1, 1, 2, 2, 3, r.randrange(1, 8)])      # few batches: where surplus workers and last-batch special cases live
        ns = max(1500, k * stride + nbatch + r.choice([-2, -1, -1, 0, 0, 0, 1, 1, 2, T, -T, stride // 2]))  # around batch ends (0: the last batch is exactly one batch long)
    else:
        ns = r.randrange(1500, 40000)
    ns = min(ns, 40000)
    nproc = r.choice([1, 2, 2, 3, 4, 4, 5, 6, 7, 8, 12])      # 12 = the default (3/4 of 16 CPUs)
    if tier == "thorough" and r.random() < 0.15:              # deeper bounds in the thorough tier
        nproc = r.choice([10, 16, 24])
        ns = min(80000, ns * 2)
    if nap >= 64:
        ns = min(ns, 20000)
    maxint = 512 if fixture == "NP1" else 8192
    sat = []
    if r.random() < 0.45:
        for _ in range(r.choice([1, 1, 2, 3])):
            kind = r.random()
            if kind < 0.4 and ns > nbatch:      # across a batch seam
                seam = r.randrange(1, max(2, (ns - nbatch) // stride + 2)) * stride + r.choice([T, nbatch - T, 0])
                a = max(0, min(ns - 2, seam - r.randrange(1, 30)))
            elif kind < 0.6 and nproc > 1:     # across a worker boundary
                a = max(0, min(ns - 2, (ns // nproc) * r.randrange(1, nproc) - r.randrange(0, 20)))
            else:
                a = r.randrange(0, ns - 1)
            b = min(ns, a + r.choice([1, 2, 5, 20, 60, 300]))
            sat.append([a, b, r.choice([0.25, 0.5, 1.0])])
    k_filter = r.random() < 0.6
    reject = ns >= 12000 and r.random() < 0.4
    wrot = r.choice(["none", "none", "scalar", "matrix"])
    plan = {
        "property": PROP, "seed": seed, "fixture": fixture, "nap": nap, "ns": ns, "nbatch": nbatch, "nproc": nproc,
        "nbatch_default": nbatch_default,
        "out_dtype": "float32" if r.random() < 0.1 else "int16",
        "data_seed": r.randrange(1 << 30), "amp": 60 if fixture == "NP1" else 400, "maxint": maxint, "saturate": sat,
        "k_filter": k_filter, "reject": reject, "wrot": wrot, "wrot_seed": r.randrange(1 << 30),
        "ns2add": r.choice([0, 0, 0, 7, 100, (-ns) % 512]), "drop_sync": r.random() < 0.3,
        "default_k": nap >= 64 and r.random() < 0.7, "ntr_pad": r.choice([4, 8, min(nap, 12)]),
        "mixed_gains": fixture == "NP1" and r.random() < 0.35,   # per-channel AP gains (legal imro tables)
        "form": r.choice(["bin", "bin", "cbin"]),           # the input recording may be compressed
        "qc_path": r.random() < 0.2,                        # QC files saved to a separate directory
        "rerun": r.random() < 0.15,      # an earlier plain run left its output and QC files in the same directory
        # ... and that earlier run may have been killed part-way (partial output, half-written QC scratch files)
        "rerun_killed": ({"rseed": r.randrange(1 << 30)} if r.random() < 0.5 else None),
        "append": r.random() < 0.2, "ns_first": r.randrange(12000, 16000) if (reject and r.random() < 0.7) else r.randrange(1500, 9000), "nproc_first": r.choice([1, 2, 3]),
        # history: an earlier destripe call in the same process on a recording of ANOTHER probe type (other ADC sampling
        # delays) with the same channel count and batch size
        "prelude": (r.choice([f for f in ("NP1", "NP21", "NP24") if f != fixture]) if r.random() < 0.2 else None),
        "prelude_fs": r.choice([None, None, 12500.0, 20000.0]),      # ... possibly acquired at quite another sampling rate
        # the process environment of a cluster job / a constrained machine: resource hints that libraries like to read
        "env": ({k: v for k, v in (("SLURM_CPUS_PER_TASK", r.choice(["1", "2", "3"])), ("SLURM_JOB_CPUS_PER_NODE", r.choice(["2", "4"])),
                                   ("LOKY_MAX_CPU_COUNT", r.choice(["1", "2"])), ("OMP_NUM_THREADS", "1"), ("NUMBA_NUM_THREADS", "1"))
                 if r.random() < 0.6} if r.random() < 0.15 else None),
        "shared_reader_kwargs": r.random() < 0.25,      # the caller reuses one (empty) reader_kwargs dict for all its calls
        "p_switch": r.choice([0.0, 0.0, 0.01, 0.05, 0.2, 0.5, 1.0]),
        "victim": r.choice([None, None, 0, nproc - 1, r.randrange(nproc)]),
        "order": r.choice([None, None, "reverse", "shuffle"]),
        "sched_seed": r.randrange(1 << 30),
        "io_mode": r.random() < 0.4,          # pre-emption decisions only around lines that touch files / store into arrays
        # hold one worker at one of its file-touching lines until all others have finished
        "delay": ({"tf": r.random(), "ef": r.random(), "sf": r.random(), "sf2": r.random(), "occ": r.choice(["first", "first", "last", "any"]),
                   "where": r.choice(["end", "start", "any", "site", "site", "site"])} if r.random() < 0.4 else None),
        "trace": None,
    }
    if plan["rerun"] and not plan["append"] and r.random() < 0.4:
        plan["ns_first"] = ns          # the earlier run was on a recording of the SAME length (other content): its output has exactly the final size
    if fixture == "NP24_shank":
        plan.update({"append": False, "rerun": False, "mixed_gains": False,
                     "prelude": "sibling" if r.random() < 0.6 else None})
    return plan


class Violation(Exception):
    def __init__(self, clause, sig, detail):
        self.clause, self.sig, self.detail = clause, sig, detail


def _reject(plan):
    """Channel rejection scans ten 0.3 s snippets: only a documented use on recordings comfortably
    longer than that (every recording of the history, incl. the first run of an append)."""
    shortest = min(plan["ns"], plan["ns_first"]) if (plan["append"] or plan.get("rerun")) else plan["ns"]
    return bool(plan["reject"]) and shortest >= 12000


def _isz(plan):
    return np.dtype(plan.get("out_dtype", "int16")).itemsize


def _k_filter(plan, W):
    """With channel rejection the spatial filter only sees the channels labelled inside the brain;
    the k-filter's mirror padding / filtfilt need more channels than ntr_pad (resp. 12), which is
    a precondition of kfilt (C05's subject), not of C06: fall back to CAR when it is not met."""
    if not plan["k_filter"]:
        return False
    if not _reject(plan):
        return True
    pad = 60 if plan["default_k"] else plan["ntr_pad"]
    return W.get("n_inside", 0) > max(pad, 12 - 2 * pad)


def _k_kwargs(plan, fs):
    if plan["default_k"]:
        return None
    return {"ntr_pad": plan["ntr_pad"], "ntr_tap": 0, "lagc": int(fs / 10),
            "butter_kwargs": {"N": 3, "Wn": 0.01, "btype": "highpass"}}


def _wrot(plan, ncv):
    if plan["wrot"] == "none":
        return None
    g = np.random.Generator(np.random.PCG64(plan["wrot_seed"]))
    if plan["wrot"] == "scalar":
        return float(g.choice([0.5, 1.0, 1.5]))
    m = np.eye(ncv) * g.uniform(0.6, 1.2) + g.uniform(-0.02, 0.02, size=(ncv, ncv))
    return m


_SHARED_READER_KWARGS = {}


def _destripe_call(plan, binf, out, nproc, append, W):
    fs = W["fs"]
    kw = dict(output_file=out, nprocesses=nproc, nbatch=(None if plan.get("nbatch_default") else plan["nbatch"]), k_kwargs=_k_kwargs(plan, fs),
              k_filter=_k_filter(plan, W), reject_channels=_reject(plan), wrot=_wrot(plan, W["ncv"]),
              ns2add=plan["ns2add"], append=append)
    if plan["drop_sync"]:
        kw["nc_out"] = W["ncv"]
    if plan.get("out_dtype", "int16") != "int16":
        kw["dtype"] = np.dtype(plan["out_dtype"]).type
    if plan.get("shared_reader_kwargs"):
        kw["reader_kwargs"] = _SHARED_READER_KWARGS       # ONE dict object handed to every call of the run (earlier call, reference, n-worker run)
    if plan.get("qc_path"):
        qc = Path(out).parent / "qc"
        qc.mkdir(exist_ok=True)
        kw["output_qc_path"] = qc
    return voltage.decompress_destripe_cbin(binf, **kw)


def _sim_run(plan, binf, out, nproc, append, W, schedule):
    """Run the real entry point under the seeded scheduler; returns (trace, extents, events)."""
    SIM.reset(root=W["root"], record_extents=True)
    SIM.capture = True
    SIM.tagger = lambda: SCHED.current
    if schedule is not None and schedule.get("count_io"):
        SCHED.reset(rng=None, count_io=True)      # sequential pre-pass that counts each task's file-touching lines
    elif schedule is None:
        SCHED.reset(rng=None)                     # one worker at a time, submission order
    elif schedule.get("trace") is not None:
        SCHED.reset(trace=schedule["trace"])
    else:
        rr = rng_of(schedule["seed"])
        order = None
        if schedule.get("order") == "reverse":
            order = list(range(nproc))[::-1]
        elif schedule.get("order") == "shuffle":
            order = list(range(nproc))
            rr.shuffle(order)
        SCHED.reset(rng=rr, p_switch=(max(schedule["p_switch"], 0.3) if schedule.get("io_mode") else schedule["p_switch"]),
                    victim=schedule.get("victim"), order=order, io_mode=bool(schedule.get("io_mode")), delay=schedule.get("delay"))
    SIM.active = True
    err = None
    saved_env = {k: os.environ.get(k) for k in (plan.get("env") or {})}
    os.environ.update(plan.get("env") or {})
    try:
        _destripe_call(plan, binf, out, nproc, append, W)
    except Exception as e:
        import traceback
        err = (e, traceback.format_exc())
    finally:
        SIM.active = False
        for k, v in saved_env.items():
            if v is None:
                os.environ.pop(k, None)
            else:
                os.environ[k] = v
    return {"trace": list(SCHED.trace), "extents": SIM.extents, "events": SIM.events, "err": err,
            "tasks": list(SCHED.task_log), "io_counts": dict(SCHED.io_counts), "io_sites": {k: list(v) for k, v in SCHED.io_sites.items()}}


def _real_joblib_run(plan, binf, out, W):
    import joblib
    saved = (voltage.__dict__["Parallel"], voltage.__dict__["delayed"])
    voltage.__dict__["Parallel"], voltage.__dict__["delayed"] = joblib.Parallel, joblib.delayed
    err = None
    try:
        SIM.active = False
        _destripe_call(plan, binf, out, max(2, plan["nproc"]), False, W)
    except Exception as e:
        import traceback
        err = (e, traceback.format_exc())
    finally:
        voltage.__dict__["Parallel"], voltage.__dict__["delayed"] = saved
        try:
            from joblib.externals.loky import get_reusable_executor
            get_reusable_executor().shutdown(wait=True)
        except Exception:
            pass
    return {"err": err}


def _count_io(plan):
    """Sequential pre-pass in a forked process: number of file-touching lines each task executes."""
    from sim.proc import run_child

    def child(report):
        base = new_scratch("c06cnt")
        try:
            report({"io_sites": _run(dict(plan, count_only=True), base)})
        finally:
            rm_scratch(base)

    msgs, _ = run_child(child, timeout=600)
    for m in msgs:
        if "io_sites" in m:
            return {int(k): v for k, v in m["io_sites"].items()}
    return {}


def sweep_plans(tier, verif_seed):
    """(i) A few configurations are additionally executed under real joblib (fidelity of the stub).
    (ii) Hold-point sweeps: for seeded base configurations, EVERY file-touching line of EVERY task is used once
    as the point at which that task is parked until all other workers have finished (enumeration of the
    hold-point axis inside seeded choice of everything else)."""
    from sim.common import run_seed
    n = {"quick": 2, "thorough": 10}[tier]
    for i in range(n):
        p = gen_plan(run_seed(verif_seed, PROP + "-real", i), tier)
        p["append"] = False
        p["nproc"] = max(2, p["nproc"])
        p["ns"] = min(p["ns"], 20000)
        p["real_joblib"] = True
        yield p
    nbase = {"quick": 1, "thorough": int(os.environ.get("VERIF_C06_SWEEPS", "8"))}[tier]
    for b in range(nbase):
        s = run_seed(verif_seed, PROP + "-hold", b)
        p = gen_plan(s, tier)
        r = rng_of(s ^ 0xBEEF)
        p.update({"append": False, "rerun": False, "nproc": r.choice([2, 2, 3, 4]), "nap": min(p["nap"], 32), "default_k": False,
                  "ntr_pad": min(p["ntr_pad"], min(p["nap"], 32)), "reject": False, "form": "bin", "nbatch_default": False,
                  "p_switch": 0.0, "victim": None, "order": None, "io_mode": False, "trace": None})
        if p["nbatch"] > 8192:
            p["nbatch"] = 4096
        # two to three batches per worker so that every worker has seams of its own
        stride = p["nbatch"] - 2 * T
        p["ns"] = min(40000, max(1500, p["nproc"] * r.choice([1, 2, 2, 3]) * stride + r.randrange(0, stride)))
        p["saturate"] = [[max(0, min(p["ns"] - 2, (p["ns"] // p["nproc"]) - 10)), min(p["ns"], (p["ns"] // p["nproc"]) + 40), 0.5]] if r.random() < 0.7 else []
        sites_ = _count_io(p)
        cand = sched.hold_candidates(sites_)
        if tier == "quick":
            # the quick tier sweeps the task body's own sites (every one of them, first and last occurrence), capped
            cand = sched.hold_candidates(sites_, body_only=True)
            if len(cand) > 90:
                cand = sorted(r.sample(cand, 90))
        for t, e in cand:
            yield dict(p, delay={"where": "abs", "task": t, "at": e}, sweep_of=b)


def run_plan(plan):
    base = new_scratch("c06")
    try:
        return _run(plan, base)
    finally:
        rm_scratch(base)


_installed = [False]


def _install():
    if not _installed[0]:
        import neuropixel, ibldsp.utils, ibldsp.fourier, ibldsp.voltage, ibldsp.waveform_extraction
        sched.install([voltage], watch=[spikeglx, neuropixel, ibldsp.utils, ibldsp.fourier, ibldsp.voltage, ibldsp.waveform_extraction])
        fsseam.install([voltage])
        session.pin_dependencies()
        _installed[0] = True


def _in_child(fn, timeout=300):
    """World preparation and oracle computations that go through repository code run in a forked child, so that
    nothing they touch (per-process caches, module state) is warm in the process that then plays the system."""
    from sim.proc import run_child
    msgs, code = run_child(lambda report: report({"r": fn()}), timeout=timeout)
    for m in msgs:
        if "r" in m:
            return m["r"]
    raise RuntimeError(f"preparation child ended with code {code} without a result")


def _compress_input(binf, cd):
    def go():
        s2 = spikeglx.Reader(binf)
        out = s2.compress_file(keep_original=False, chunk_duration=cd, n_threads=1)
        s2.close()
        return str(out)
    return Path(_in_child(go))


def _oracle_geometry(binf):
    """The recording's geometry (x, y, ADC sample shifts, ...) computed in a pristine process."""
    def go():
        sr = spikeglx.Reader(binf)
        h = {k: np.asarray(v).tolist() for k, v in sr.geometry.items()}
        sr.close()
        return h
    return {k: np.asarray(v) for k, v in _in_child(go).items()}


SH_STEM = "_spikeglx_ephysData_g0_t0.imec0"


def _make_shank_world(plan, base):
    """NP2.4 four-shank recording (shanks interleaved channel by channel, so that every shank has plan['nap'] channels
    with its own ADC sampling delays) split by the real converter in a forked process; returns the per-shank folders.
    The destripe input is one shank's file (its .meta carries the whole probe's channel map plus the shank number)."""
    nap, ns = plan["nap"], plan["ns"]
    par = base / "par" / "probe00"

    def go():
        import neuropixel
        Op = world.make_data(plan["data_seed"], ns, 4 * nap, saturate=plan["saturate"], amp=plan["amp"], maxint=plan["maxint"], smooth=True)
        apf = world.write_recording(par, SH_STEM, "NP24", Op, shank_of=[i % 4 for i in range(4 * nap)])
        conv = neuropixel.NP2Converter(apf, post_check=False, delete_original=False, compress=False)
        conv.init_params()
        return int(conv.process())

    st = _in_child(go)
    if st != 1:
        raise RuntimeError(f"could not prepare the shank world: converter returned {st}")
    return [base / "par" / ("probe00" + c) for c in "abcd"]


class _PristineOracle:
    """A process forked BEFORE the system runs, which later computes the in-memory reference: module-level state that the
    system's calls leave behind (a cached stencil, default filter parameters remembered from an earlier recording) cannot
    reach the oracle, which uses the repository's own destripe()."""

    def __init__(self):
        import pickle
        self.r1, self.w1 = os.pipe()
        self.r2, self.w2 = os.pipe()
        self.pid = os.fork()
        if self.pid == 0:
            try:
                os.close(self.w1)
                os.close(self.r2)
                data = b""
                while True:
                    chunk = os.read(self.r1, 1 << 16)
                    if not chunk:
                        break
                    data += chunk
                if data:
                    args = pickle.loads(data)
                    try:
                        _check_reference(*args)
                        out = ("ok", None)
                    except Violation as v:
                        out = ("viol", (v.clause, v.sig, v.detail))
                    except BaseException:
                        import traceback
                        out = ("err", traceback.format_exc())
                    os.write(self.w2, pickle.dumps(out))
            finally:
                os._exit(0)
        os.close(self.r1)
        os.close(self.w2)
        self.done = False

    def check(self, *args):
        import pickle
        payload = pickle.dumps(args)
        view = memoryview(payload)
        while view:
            n = os.write(self.w1, view[:1 << 16])
            view = view[n:]
        os.close(self.w1)
        data = b""
        while True:
            chunk = os.read(self.r2, 1 << 16)
            if not chunk:
                break
            data += chunk
        os.close(self.r2)
        os.waitpid(self.pid, 0)
        self.done = True
        kind, val = pickle.loads(data) if data else ("err", "the oracle process ended without an answer")
        if kind == "viol":
            raise Violation(*val)
        if kind == "err":
            raise RuntimeError("oracle process failed: " + str(val)[-1500:])

    def cancel(self):
        if not self.done:
            for fd in (self.w1, self.r2):
                try:
                    os.close(fd)
                except OSError:
                    pass
            os.waitpid(self.pid, 0)
            self.done = True


def _run(plan, base):
    _install()
    if plan.get("count_only"):
        return _run2(plan, base, None)
    oracle = _PristineOracle()
    try:
        return _run2(plan, base, oracle)
    finally:
        oracle.cancel()


def _run2(plan, base, oracle):
    _SHARED_READER_KWARGS.clear()
    shank_world = plan["fixture"] == "NP24_shank"
    fs = world.meta_fs("NP24" if shank_world else plan["fixture"])
    nap, ns = plan["nap"], plan["ns"]
    rec = base / "rec_oracle"
    gains = None
    if plan.get("mixed_gains"):
        gg = rng_of(plan["seed"] ^ 0x6A1)
        gains = [gg.choice([250, 500, 500, 1000]) for _ in range(nap)]
    W_gains = gains
    sib = None
    if shank_world:
        import shutil
        dirs = _make_shank_world(plan, base)
        k0 = plan["data_seed"] % 4
        for dst in (rec, base / "rec"):
            dst.mkdir()
            for ext in ("bin", "meta"):
                shutil.copy(dirs[k0] / f"{SH_STEM}.ap.{ext}", dst / f"{STEM}.ap.{ext}")
        binf = base / "rec" / f"{STEM}.ap.bin"
        O = np.fromfile(binf, dtype=np.int16).reshape(ns, nap + 1)      # what the input file holds (the split itself is C03/C04's subject)
        sib = dirs[(k0 + 1 + (plan["data_seed"] // 4) % 3) % 4]
    else:
        O = world.make_data(plan["data_seed"], ns, nap, saturate=plan["saturate"], amp=plan["amp"],
                            maxint=plan["maxint"], smooth=True)
        world.write_recording(rec, STEM, plan["fixture"], O, ap_gains=gains)            # pristine copy for the oracle
        binf = world.write_recording(base / "rec", STEM, plan["fixture"], O, ap_gains=gains)
    h_oracle = _oracle_geometry(rec / f"{STEM}.ap.bin")
    if plan.get("form") == "cbin":
        binf = _compress_input(binf, rng_of(plan["seed"]).choice([0.05, 0.13, 1.0]))
    W = {"root": base, "fs": fs, "ncv": nap, "nc": nap + 1, "h": h_oracle}
    if _reject(plan):
        def count_inside():
            srx = spikeglx.Reader(binf)
            lab = voltage.detect_bad_channels_cbin(srx)
            srx.close()
            return int(np.sum(lab != 3))
        W["n_inside"] = _in_child(count_inside)
    nc_out = nap if plan["drop_sync"] else nap + 1
    if plan.get("count_only"):
        od = base / "out_cnt"
        od.mkdir()
        rp = _sim_run(plan, binf, od / "destriped.bin", plan["nproc"], False, W, {"count_io": True})
        return {} if rp["err"] else rp["io_sites"]
    log = []
    stats = {"faults": {}, "probes": {}, "outcomes": {}, "distinct": [], "steps": 0, "config": {}}
    viol = None

    def probe(name, n=1):
        stats["probes"][name] = stats["probes"].get(name, 0) + n

    stride = plan["nbatch"] - 2 * T
    nbatches = max(0, -(-(ns - plan["nbatch"]) // stride)) + 1
    stats["config"][f"nproc={plan['nproc']}"] = 1
    stats["config"]["kfilt" if _k_filter(plan, W) else "car"] = 1
    if plan.get("env"):
        stats["config"]["resource_env_vars_set"] = 1
    for key in ("append", "drop_sync", "qc_path", "rerun", "mixed_gains", "prelude"):
        if plan.get(key):
            stats["config"][key] = 1
    stats["config"]["input_" + plan.get("form", "bin")] = 1
    if _reject(plan):
        stats["config"]["reject"] = 1
    if plan["wrot"] != "none":
        stats["config"]["wrot_" + plan["wrot"]] = 1
    if plan["ns2add"]:
        stats["config"]["ns2add"] = 1
    if plan["saturate"]:
        stats["config"]["saturated_stretches"] = 1
    if ns < plan["nbatch"]:
        probe("ns<nbatch")
    sigbase = f"n{plan['nproc']}"
    try:
        first_bytes = b""
        outs = {}
        # optional first run of an append history (its own recording), on each output file
        if plan["append"] or plan.get("rerun"):
            O1 = world.make_data(plan["data_seed"] ^ 0x77, plan["ns_first"], nap, amp=plan["amp"], maxint=plan["maxint"], smooth=True)
            bin1 = world.write_recording(base / "rec1", STEM, plan["fixture"], O1, ap_gains=W_gains)
            if plan.get("form") == "cbin":
                bin1 = _compress_input(bin1, 0.1)
        if plan.get("prelude"):
            fxp = plan["prelude"]
            if fxp == "sibling":
                # the shank processed just before this one in a loop over the shank folders of one probe
                binp = sib / f"{SH_STEM}.ap.bin"
                ns_p, fs_p = ns, fs
            else:
                ns_p = min(12000, 2 * plan["nbatch"] + 100) if not plan.get("nbatch_default") else 3000
                Op = world.make_data(plan["data_seed"] ^ 0x3131, ns_p, nap, amp=(60 if fxp == "NP1" else 400),
                                     maxint=(512 if fxp == "NP1" else 8192), smooth=True)
                binp = world.write_recording(base / "rec_p", STEM, fxp, Op, fs=plan.get("prelude_fs"))
                fs_p = plan.get("prelude_fs") or world.meta_fs(fxp)
            (base / "out_p").mkdir()
            pp = dict(plan, ns=ns_p, reject=False, append=False, qc_path=False)
            rp = _sim_run(pp, binp, base / "out_p" / "destriped.bin", min(2, plan["nproc"]), False,
                          {"root": base, "fs": fs_p, "ncv": nap, "nc": nap + 1}, None)
            if rp["err"]:
                raise Violation("C06.a", f"raises:{type(rp['err'][0]).__name__}:prelude", f"earlier call on a {fxp} recording raised: {rp['err'][1][-600:]}")
            probe("earlier_call_on_sibling_shank_same_process" if fxp == "sibling" else "earlier_call_other_probe_type_same_process")
        for tag, nproc, schedule in (("ref", 1, None),
                                     ("sim", plan["nproc"], {"seed": plan["sched_seed"], "p_switch": plan["p_switch"],
                                                             "victim": plan["victim"], "order": plan["order"], "trace": plan.get("trace"), "io_mode": plan.get("io_mode")})):
            od = base / f"out_{tag}"
            od.mkdir()
            out = od / "destriped.bin"
            offset = 0
            if plan.get("rerun") and not plan["append"] and plan.get("rerun_killed") and tag == "sim":
                # history: the earlier run died part-way (its own forked process, killed at a seeded write)
                _killed_first_run(plan, bin1, out, W, base, probe, stats)
                offset = 0
            elif plan["append"] or plan.get("rerun"):
                r1 = _sim_run(plan, bin1, out, 1 if tag == "ref" else plan["nproc_first"], False, W,
                              None if tag == "ref" else {"seed": plan["sched_seed"] ^ 1, "p_switch": plan["p_switch"]})
                if r1["err"]:
                    raise Violation("C06.f", f"{sigbase}:first-run-raises:{type(r1['err'][0]).__name__}", f"first run of the append history raised: {r1['err'][1][-800:]}")
                offset = out.stat().st_size
                first_bytes = out.read_bytes()
                if offset != (plan["ns_first"] + plan["ns2add"]) * nc_out * _isz(plan):
                    raise Violation("C06.a", f"{sigbase}:size-first", f"first run wrote {offset} bytes for ns={plan['ns_first']}")
                if not plan["append"]:
                    offset = 0          # plain re-run into the same place: nothing of the earlier run may survive
                    first_bytes = b""
                    probe("rerun_over_earlier_output")
            if tag == "sim" and plan.get("delay") and plan["delay"].get("where") == "abs" and nproc > 1 and schedule.get("trace") is None:
                # hold-point sweep: the task and the index of its file-touching line are given explicitly
                schedule = dict(schedule, delay={"task": plan["delay"]["task"], "at": plan["delay"]["at"]})
                probe("one_worker_held_at_a_file_touching_line")
                probe("hold_point_sweep_plans")
            elif tag == "sim" and plan.get("delay") and nproc > 1 and not plan["append"] and not plan.get("rerun") and schedule.get("trace") is None:
                pre = base / "out_pre"
                pre.mkdir()
                rp = _sim_run(plan, binf, pre / "destriped.bin", nproc, False, W, {"count_io": True})
                t = min(nproc - 1, int(plan["delay"]["tf"] * nproc))
                cnt = rp["io_counts"].get(t, 0)
                sites = rp["io_sites"].get(t, [])
                if cnt and not rp["err"]:
                    schedule = dict(schedule, delay={"task": t, "at": sched.hold_index(plan["delay"], sites)})
                    probe("one_worker_held_at_a_file_touching_line")
            res = _sim_run(plan, binf, out, nproc, plan["append"], W, schedule)
            stats["steps"] += sum(t[1] for t in res["trace"])
            if res["err"]:
                e, tb = res["err"]
                where = [ln.strip() for ln in tb.splitlines() if "voltage.py" in ln][-1:] or [""]
                raise Violation("C06.a", f"raises:{type(e).__name__}:{'1worker' if nproc == 1 else 'multi'}",
                                f"decompress_destripe_cbin raised {type(e).__name__}: {e} with nprocesses={nproc} ns={ns} nbatch={plan['nbatch']} ({where[0]})")
            outs[tag] = out
            data = out.read_bytes()
            log.append([tag, nproc, len(data), sha1_file(out), [list(t) for t in res["trace"]][:400], res["tasks"]])
            _check_run(plan, tag, nproc, O, data, offset, first_bytes, nc_out, res, od, nbatches, probe, stats, sigbase)
            if tag == "sim":
                plan_trace = [list(t) for t in res["trace"]]
        # fidelity of the stub: the same call under real joblib (loky worker processes, OS scheduling)
        if plan.get("real_joblib") and not plan["append"]:
            od = base / "out_real"
            od.mkdir()
            real = _real_joblib_run(plan, binf, od / "destriped.bin", W)
            if real["err"]:
                raise RuntimeError(f"real joblib run failed: {real['err'][1][-1500:]}")
            same = (od / "destriped.bin").read_bytes() == outs["ref"].read_bytes()
            stats["probes"]["real_joblib_runs"] = 1
            stats["probes"]["real_joblib_agree_with_simulated"] = int(same)
            log.append(["real", plan["nproc"], int(same)])
            if not same:
                # an observation under real, uncontrolled scheduling: not replayable, so it is never reported as a
                # VIOLATION by itself; the runner turns it into a harness error only if the simulated exploration
                # finds nothing that explains it
                stats["fidelity_mismatch"] = (f"output under real joblib differs from the 1-worker/simulated output "
                                              f"(ns={ns} nbatch={plan['nbatch']} nproc={plan['nproc']})")
        # g': the saturation flags describe their samples whatever the schedule.  The code legitimately lets the
        # last writer win where two batches overlap, and the two writers only disagree at the very last sample of the
        # earlier batch (it has no slew estimate there): those positions are excluded, everything else must agree
        # with the one-worker run.
        qa = np.load((outs["ref"].parent / "qc" if plan.get("qc_path") else outs["ref"].parent) / "_iblqc_ephysSaturation.samples.npy")
        qb = np.load((outs["sim"].parent / "qc" if plan.get("qc_path") else outs["sim"].parent) / "_iblqc_ephysSaturation.samples.npy")
        if qa.shape == qb.shape:
            amb = np.zeros(qa.shape[0], dtype=bool)
            k = 0
            while k * stride + plan["nbatch"] - 1 < qa.shape[0]:
                amb[k * stride + plan["nbatch"] - 1] = True
                k += 1
            diff = np.flatnonzero((qa != qb) & ~amb)
            if len(diff):
                raise Violation("C06.g", f"{sigbase}:saturation-content", f"saturation flags differ from the 1-worker run at {len(diff)} samples that are not batch-end samples (first {diff[0]}); saturated stretches={plan['saturate']} workers={plan['nproc']}")
        # d: byte-identical for any number of workers / schedule
        a = outs["ref"].read_bytes()
        b = outs["sim"].read_bytes()
        if a != b:
            n = min(len(a), len(b))
            isz = _isz(plan)
            aa = np.frombuffer(a[:n - n % isz], dtype=np.dtype(plan.get("out_dtype", "int16")))
            bb = np.frombuffer(b[:n - n % isz], dtype=np.dtype(plan.get("out_dtype", "int16")))
            bad = np.flatnonzero(aa != bb)
            raise Violation("C06.d", f"{sigbase}:differs-from-1-worker",
                            f"output with {plan['nproc']} workers differs from the 1-worker run: {len(bad)} int16 values, first at sample {bad[0] // nc_out if len(bad) else '?'} (sizes {len(a)} vs {len(b)}) ns={ns} nbatch={plan['nbatch']}")
        # e: equals batch-wise in-memory destriping (1 LSB)
        oracle.check(plan, O, outs["ref"], offset, nc_out, fs, rec, sigbase, {k: v for k, v in W.items() if k != "root"})
    except Violation as v:
        viol = {"clause": v.clause, "sig": v.sig, "detail": v.detail}
    xplan = dict(plan)
    if viol:
        # for the reader of the replay file: the schedule that was actually executed
        # ([worker, lines run, why] slices); replay re-derives it from sched_seed unless "trace" is set
        xplan["recorded_schedule"] = next((e[4] for e in reversed(log) if e[0] == "sim"), None)
        if SCHED.delay is not None and SCHED.delay.get("site"):
            xplan["held_at"] = {"task": SCHED.delay.get("task"), "before_line": SCHED.delay["site"]}   # for the reader of the replay file
    stats["distinct"].append(f"geom|{ns % stride}|{plan['nbatch']}|{plan['nproc']}")
    stats["outcomes"]["violation" if viol else "held"] = 1
    return {"violation": viol, "stats": stats, "digest": digest(log), "plan": xplan,
            "sample": {"plan": {k: v for k, v in plan.items() if k not in ("trace",)},
                       "schedule_head": next((e[4][:12] for e in reversed(log) if e[0] == "sim"), None)}}


def _killed_first_run(plan, bin1, out, W, base, probe, stats):
    """An earlier destripe run into the same place, in its own process, killed at a seeded write event."""
    def do_step(step, root):
        SCHED.reset(rng=None)
        _destripe_call(plan, bin1, out, plan["nproc_first"], False, W)
        return {"done": True}

    def clear():
        import shutil
        for f in list(Path(out).parent.iterdir()):
            if f.is_dir():
                shutil.rmtree(f)
            else:
                f.unlink()

    dr = session.run_step(base, do_step, {}, None)       # fault-free pass for the event list (absolute paths: no copy needed)
    clear()
    elig = lambda lab: lab.startswith(("tofile:", "open-", "close:"))  # noqa: E731
    f = session.place_fault(rng_of(plan["rerun_killed"]["rseed"]), dr["events"], elig, kinds=("kill", "kill", "torn"))
    if f is None:
        return
    res = session.run_step(base, do_step, {}, f)
    stats["steps"] += len(res["events"])
    if res["fired"]:
        stats["faults"][res["fired"]["kind"]] = stats["faults"].get(res["fired"]["kind"], 0) + 1
        probe("earlier_run_killed_part_way_then_rerun")


def _check_run(plan, tag, nproc, O, data, offset, first_bytes, nc_out, res, od, nbatches, probe, stats, sigbase):
    ns, nap = plan["ns"], plan["nap"]
    want = offset + (ns + plan["ns2add"]) * nc_out * _isz(plan)
    # a: size
    if len(data) != want:
        raise Violation("C06.a", f"{sigbase}:size:{tag}", f"output has {len(data)} bytes, expected {want} (ns={ns} ns2add={plan['ns2add']} nc_out={nc_out} offset={offset}) with {nproc} workers")
    # f: append keeps the first run's bytes
    if plan["append"] and data[:offset] != first_bytes:
        raise Violation("C06.f", f"{sigbase}:append-clobbers:{tag}", "appending changed the bytes of the first run")
    # b: write-extent history
    rel = os.path.relpath(od / "destriped.bin", SIM.root)
    ext = [e for e in res["extents"] if e[0] == rel]
    final = np.zeros(want, dtype=np.uint8)
    written = np.zeros(want, dtype=bool)
    nover = 0
    for (_, p0, p1, tagw, blob) in ext:
        if p0 < offset or p1 > want:
            raise Violation("C06.b", f"{sigbase}:write-outside", f"write [{p0},{p1}) outside [{offset},{want}) by worker/task {tagw}")
        seg = np.frombuffer(blob, dtype=np.uint8)
        w = written[p0:p1]
        if w.any():
            nover += int(w.sum())
            if not np.array_equal(final[p0:p1][w], seg[w]):
                raise Violation("C06.b", f"{sigbase}:rewritten-differently", f"bytes in [{p0},{p1}) were written twice with different values (worker/task {tagw})")
        final[p0:p1] = seg
        written[p0:p1] = True
    if not written[offset:].all():
        miss = np.flatnonzero(~written[offset:])
        raise Violation("C06.b", f"{sigbase}:gap", f"{len(miss)} bytes never written, first at byte {offset + miss[0]} (sample {miss[0] // (nc_out * _isz(plan))}) with {nproc} workers")
    if final[offset:].tobytes() != data[offset:]:
        raise Violation("C06.b", f"{sigbase}:not-what-was-written", "the file content differs from the last value written to each byte (file re-created or truncated after a worker wrote)")
    first_write = next((i for i, lab in enumerate(res["events"]) if lab == f"tofile:{rel}"), None)
    for i, lab in enumerate(res["events"]):
        if lab.startswith("open-w") and lab.endswith(":" + rel) and first_write is not None and i > first_write:
            raise Violation("C06.b", f"{sigbase}:recreated", "output re-created after a worker had written to it")
    if nover:
        probe("bytes_written_twice_identically", 1)
    if tag == "sim" and nproc > 1:
        workers_seq = [e[3][0] for e in ext if e[3] is not None]
        sw = sum(1 for a, b in zip(workers_seq, workers_seq[1:]) if a != b)
        if sw >= 1:
            stats["distinct"].append("sched|" + digest([list(t) for t in res["trace"]]))
            probe("switch_between_two_workers_writes", 1)
        if workers_seq and workers_seq[0] != 0:
            probe("worker_k>0_writes_first")
        tasks_done = {t for t, _ in res["tasks"]}
        if len(tasks_done) < nproc:
            probe("fewer_tasks_than_workers")
    # c: sync column bit-exact
    arr = np.frombuffer(data[offset:], dtype=np.dtype(plan.get("out_dtype", "int16"))).reshape(-1, nc_out)
    if not plan["drop_sync"]:
        src = O[:, -1]
        got = arr[:ns, -1]
        if not np.array_equal(got, src):
            bad = np.flatnonzero(got != src)
            sat = bool(plan["saturate"])
            raise Violation("C06.c", f"sync-differs:{'saturated' if sat else 'clean'}",
                            f"sync column differs from the source at {len(bad)} samples (first {bad[0]}: {got[bad[0]]} vs {src[bad[0]]}); saturated stretches={plan['saturate']} workers={nproc}")
    if plan["ns2add"]:
        pad = arr[ns:]
        if pad.shape[0] != plan["ns2add"] or not (pad == arr[ns - 1]).all():
            raise Violation("C06.a", f"{sigbase}:padding", "padding rows are not a repetition of the last sample")
    # g: QC files
    qd = od / "qc" if plan.get("qc_path") else od
    sat_f = qd / "_iblqc_ephysSaturation.samples.npy"
    rms_f = qd / "_iblqc_ephysTimeRmsAP.rms.npy"
    ts_f = qd / "_iblqc_ephysTimeRmsAP.timestamps.npy"
    for f in (sat_f, rms_f, ts_f):
        if not f.exists():
            raise Violation("C06.g", f"{sigbase}:qc-missing", f"{f.name} missing")
    satv = np.load(sat_f)
    rms = np.load(rms_f)
    ts = np.load(ts_f)
    if satv.shape != (ns,):
        raise Violation("C06.g", f"{sigbase}:saturation-count", f"saturation file has shape {satv.shape}, recording has {ns} samples")
    if not plan["append"]:
        if rms.shape != (nbatches, nap) or ts.shape != (nbatches,):
            raise Violation("C06.g", f"{sigbase}:rms-count", f"rms {rms.shape} / timestamps {ts.shape}, expected {nbatches} batches x {nap} channels (ns={ns} nbatch={plan['nbatch']} workers={nproc})")
    else:
        stride = plan["nbatch"] - 2 * T
        nb_first = max(0, -(-(plan["ns_first"] - plan["nbatch"]) // stride)) + 1
        if rms.shape != (nb_first + nbatches, nap) or ts.shape != (nb_first + nbatches,):
            raise Violation("C06.g", f"{sigbase}:rms-count-append", f"rms {rms.shape} / timestamps {ts.shape} after append; the two runs have {nb_first} + {nbatches} batches")
    if plan["saturate"] and satv.any():
        probe("saturation_detected")


def _check_reference(plan, O, out, offset, nc_out, fs, rec, sigbase, W):
    """Batch-wise in-memory destriping with the documented taper margins (float64 fshift), via
    the public voltage.destripe()."""
    ns, nap, N = plan["ns"], plan["nap"], plan["nbatch"]
    sr = spikeglx.Reader(rec / f"{STEM}.ap.bin")
    try:
        h = W["h"]          # geometry computed in a pristine process (a per-process cache poisoned by an earlier call must not reach the oracle)
        labels = voltage.detect_bad_channels_cbin(sr) if _reject(plan) else None
        taper = np.r_[0, scipy.signal.windows.cosine((T - 1) * 2), 0]
        s2v = sr.sample2volts
        wrot = _wrot(plan, nap)
        odt = np.dtype(plan.get("out_dtype", "int16"))
        got = np.frombuffer(out.read_bytes()[offset:], dtype=odt).reshape(-1, nc_out)[:ns]
        stride = N - 2 * T
        first = 0
        worst = 0
        while True:
            last = min(first + N, ns)
            chunk = sr[first:last, :nap].T
            _, mute = voltage.saturation(chunk, max_voltage=sr.range_volts[:nap], fs=sr.fs)
            chunk[:, :T] *= taper[:T]
            chunk[:, -T:] *= taper[T:]
            x = voltage.destripe(chunk.astype(np.float64), fs=sr.fs, h=h, butter_kwargs=None,
                                 k_kwargs=_k_kwargs(plan, fs), channel_labels=labels, k_filter=_k_filter(plan, W))
            x = x.T * mute[:, None]
            i0 = 0 if first == 0 else T
            i1 = (last - first) if last == ns else N - T
            y = x[i0:i1] / s2v[:nap]
            if wrot is not None:
                y = np.dot(y, wrot) if not np.isscalar(wrot) else y * wrot
            if odt.kind == "f":
                dd = np.abs(got[first + i0: first + i1, :nap].astype(np.float64) - y)     # no truncation: within one count
            else:
                ref = y.astype(np.int16)
                g = got[first + i0: first + i1, :nap].astype(np.int64)
                d = np.abs(g - ref.astype(np.int64))
                # truncation toward zero can flip by one on a float32/float64 difference
                d2 = np.abs(g - np.rint(y).astype(np.int64))
                dd = np.minimum(d, d2)
            m = float(dd.max()) if dd.size else 0
            worst = max(worst, m)
            if m > 1:
                bad = np.argwhere(dd > 1)
                raise Violation("C06.e", f"{sigbase}:vs-in-memory", f"batch [{first},{last}) differs from in-memory destripe by up to {m} LSB at {len(bad)} values (first at sample {first + i0 + bad[0][0]}, channel {bad[0][1]}); ns={ns} nbatch={N}")
            if last == ns:
                break
            first += stride
    finally:
        sr.close()


def shrink_candidates(plan):
    for key, val in (("shared_reader_kwargs", False), ("env", None), ("prelude", None), ("append", False), ("delay", None), ("io_mode", False), ("out_dtype", "int16"), ("mixed_gains", False), ("rerun_killed", None), ("rerun", False), ("form", "bin"), ("qc_path", False), ("saturate", []), ("wrot", "none"), ("reject", False), ("ns2add", 0),
                     ("drop_sync", False), ("default_k", False), ("order", None), ("victim", None), ("p_switch", 0.0),
                     ("k_filter", False)):
        if plan.get(key) != val:
            c = dict(plan)
            c[key] = val
            c["trace"] = None
            yield c
    if plan["nproc"] > 2:
        c = dict(plan)
        c["nproc"] = plan["nproc"] - 1
        c["victim"] = None
        c["trace"] = None
        yield c
        c = dict(plan)
        c["nproc"] = 2
        c["victim"] = None
        c["trace"] = None
        yield c
    if plan["nap"] > 8 and not plan["default_k"]:
        c = dict(plan)
        c["nap"] = 8
        c["ntr_pad"] = min(plan["ntr_pad"], 8)
        c["trace"] = None
        yield c
    if plan["ns"] > 3 * plan["nbatch"]:
        c = dict(plan)
        c["ns"] = plan["ns"] // 2
        c["saturate"] = [s for s in plan["saturate"] if s[1] <= c["ns"]]
        c["trace"] = None
        yield c
