"""C11 — truncated or inconsistent files open and expose exactly the complete samples.

Two parties: the real reader (spikeglx.Reader / OnlineReader, real mtscomp for .cbin) and a
simulated acquisition writer (stub) that owns the .bin and appends bursts of arbitrary byte
length.  The writer is stepped from a line tracer installed on the reader's construction
code, so the file may grow between any two lines of Reader.__init__/open/ns; where it crashes
(any byte offset) and what the metadata says at that time are drawn from the run's seed.
"""
import sys
import traceback

import numpy as np

from sim.common import rng_of, digest, new_scratch, rm_scratch, setup_imports
from sim import world

setup_imports()
import spikeglx  # noqa: E402

PROP = "C11"
LEVEL = "fault_enumeration"
TIERS = {
    "quick": {"runs": 20000, "budget_s": 240, "det_pairs": 6},
    "thorough": {"runs": 400000, "budget_s": 900, "det_pairs": 12},
}
SYSTEM_IN_RUN_PROCESS = True      # the code under test runs in the run process itself: its death by signal is the system's crash
RUN_TIMEOUT = 120
RULE = (
    "one run = one (writer history, metadata form, reader class, open schedule) drawn from the seed: "
    "the simulated acquisition writer appends seeded bursts (crash point = any byte offset >= one frame), "
    "metadata is absent-of-size-fields / stale / claiming more than present, the reader is constructed while "
    "or after the writer runs (growth injected between traced lines of Reader.__init__/open/ns); thorough adds "
    "an exhaustive sweep of every trailing-byte count 0..frame-1 for several frame sizes x readers x rates x "
    "metadata forms. distinct_nontrivial counts distinct (reader, form, meta form, sign(bytes-claimed), "
    "trailing bytes, frame size, growth pattern class, ignore_warnings) tuples among runs whose file has a "
    "partial last frame or whose size disagrees with the metadata."
)
COMPONENTS = {
    "real": ["spikeglx.Reader.__init__/open/ns/shape/rl/read/__getitem__/read_sync", "spikeglx.OnlineReader",
             "spikeglx.read_meta_data", "mtscomp.Reader/compress (for .cbin)", "numpy.memmap on a real file"],
    "stub": ["acquisition writer (simulated task appending bursts; external program in reality)",
             "truncating copier (simulated)"],
}
ASSUMPTIONS = [
    "process-level failure model: bytes handed to the kernel survive a writer crash; no power-loss semantics",
    "files only grow while a reader is being constructed (SpikeGLX appends)",
    "channel order and gains are taken from the reader itself (they are C01's subject, not C11's)",
    "reads through an already-open OnlineReader of frames appended after it was opened are not demanded",
]
SIM_TIME_NOTE = "simulated time = acquisition time of the frames the writer stub produced (frames / sampling rate) + the gaps by which the virtual clock advanced between the phases of each run"

FIXS = ["NP24", "NP24_int", "NP21", "NP1"]
TRACED = {"__init__", "open", "ns", "shape", "rl"}


# ---------------------------------------------------------------------------------------------

def gen_plan(seed, tier="quick"):
    r = rng_of(seed)
    nap = r.choice([1, 2, 3, 4, 5, 7, 8, 12, 16])
    nc = nap + 1
    frame = nc * 2
    reader = r.choice(["Reader", "OnlineReader"])
    form = "cbin" if (reader == "Reader" and r.random() < 0.15) else "bin"
    fixture = r.choice(FIXS)
    frames = r.choice([1, 2, 3, 5, 17, 100, 999, r.randrange(1, 5000), r.randrange(1, 400)])
    if nap <= 2 and r.random() < 0.12:
        frames = r.choice([100001, 250000, 400003])      # long recording: a one-frame disagreement is < 1e-5 of it
    dtype = "int16"
    if form == "bin" and r.random() < 0.12:
        dtype = r.choice(["int32", "float32"])          # Reader(..., dtype=...): 4 bytes per sample
        frame = nc * 4
    plan = {"property": PROP, "seed": seed, "dtype": dtype, "reader": reader, "form": form, "fixture": fixture,
            "entry": "meta" if r.random() < 0.12 else "data",      # the reader may be handed the .meta path instead of the data file
            "nap": nap, "ignore_warnings": r.random() < 0.3, "sort": r.random() < 0.5,
            "data_seed": r.randrange(1 << 30)}
    if form == "cbin":
        # a complete cbin/ch pair holding `frames` frames; metadata announces `claimed`
        claimed = max(1, frames + r.choice([-1, 1]) * r.choice([1, 2, 10, max(1, frames // 2)]))
        if nap <= 2 and r.random() < 0.3:
            frames = r.choice([100001, 250000])          # long enough for a rate mismatch to move the rounded count
            claimed = max(1, frames + r.choice([-1, 1]) * r.choice([1, 2, 10]))
            plan["frames"] = frames
        # the .ch may carry the nominal rate (mtscomp CLI) while the .meta carries the measured one
        plan["ch_rate"] = r.choice(["meta", "meta", "nominal"])
        plan.update({"frames": frames, "claimed": claimed, "meta": r.choice(["complete", "complete", "complete", "none"]),
                     "bytes": frames * frame, "chunk": r.choice([0.001, 0.005, 0.01, 1.0]), "bursts": [],
                     "two_phase": False})
        return plan
    trailing = r.choice([0, 1, frame // 2 - 1, frame // 2, frame // 2 + 1, frame - 1, r.randrange(frame), r.randrange(frame)])
    trailing = max(0, min(frame - 1, trailing))
    total = frames * frame + trailing
    if reader == "OnlineReader":
        meta = r.choice(["none", "none", "stale", "more"])
    else:
        meta = r.choice(["stale", "more", "more", "exact_floor", "none"])
    if meta == "stale":
        claimed = max(1, frames - r.choice([0, 1, 2, frames // 2]))
    elif meta == "more":
        claimed = frames + (r.choice([1, 2, 7]) if frames > 50000 else r.choice([1, 2, 7, frames]))
    else:
        claimed = frames
    # growth: the reader is constructed when `bytes` bytes are there; the writer appends bursts
    # while construction proceeds (at traced-line indices) -- or not at all (quiescent / crashed)
    bursts = []
    if r.random() < (0.6 if reader == "OnlineReader" else 0.25):
        for _ in range(r.choice([1, 1, 2, 3, 6])):
            bursts.append([r.randrange(0, 60), r.choice([1, 2, frame - 1, frame, frame + 1, 3 * frame, r.randrange(1, 40 * frame)])])
        bursts.sort()
    # two-phase: Reader(path, open=False), the writer appends, then sr.open() -- what is present
    # when open() is called is what must be exposed
    two_phase = r.random() < 0.25
    pre_open = []
    if two_phase:
        for _ in range(r.choice([1, 1, 2])):
            pre_open.append(r.choice([1, frame - 1, frame, frame + 1, 5 * frame + 3, r.randrange(1, 40 * frame)]))
    # the same path opened a second time in the same process (a later pipeline step, polling a
    # growing file): optionally the writer appended in between
    reopen = None
    if r.random() < 0.3:
        reopen = r.choice([0, 0, 1, frame - 1, frame, frame + 1, 7 * frame + 2])
    plan.update({"frames": frames, "bytes": total, "claimed": claimed, "meta": meta, "bursts": bursts,
                 "meta_fields": r.choice(["complete"] * 6 + ["size_only", "time_only"]),     # only one of the two size fields present
                 "use_with": r.random() < 0.2,                                               # reader used as a context manager
                 "two_phase": two_phase, "pre_open": pre_open, "reopen": reopen,
                 "reopen_same": r.random() < 0.4,       # close() + open() on the same object instead of a new Reader
                 "reopen_keep_open": r.random() < 0.35,   # ... or the first reader stays open while the second one is constructed
                 # constructor keywords that must not change what a flat binary exposes: a ch_file= handed along (reader
                 # keywords reused from the compressed form of the recording), the metadata passed explicitly from elsewhere
                 "kw_ch_file": r.random() < 0.08, "kw_meta_file": r.random() < 0.08,
                 "symlink": r.random() < 0.1,
                 "sparse": r.random() < 0.15,        # an all-zero stretch of the recording stored as a hole (cp --sparse, rsync -S, preallocating copiers)
                 # simulated seconds that pass between the phases of the run (open -> reads -> growth -> later reads / re-open)
                 "clock_gaps": [r.choice([0.0, 0.0, 0.3, 2.0, 90.0, 7200.0]) for _ in range(4)]})       # the data file is a symbolic link into a store, its .meta a regular file beside the link
    return plan


def sweep_plans(tier, verif_seed):
    if tier != "thorough":
        naps = [1, 3]
    else:
        naps = [1, 2, 3, 5, 8, 16]
    for nap in naps:
        frame = (nap + 1) * 2
        for reader in ("Reader", "OnlineReader"):
            for fixture in ("NP24", "NP21"):
                for meta in ("none", "stale", "more"):
                    for frames in (1, 7):
                        for dtype in (("int16", "int32") if (nap in (1, 3) and fixture == "NP24") else ("int16",)):
                            fr_ = frame * np.dtype(dtype).itemsize // 2
                            for trailing in range(fr_):
                                yield {"property": PROP, "seed": 0, "reader": reader, "form": "bin", "dtype": dtype,
                                       "fixture": fixture, "nap": nap, "ignore_warnings": False,
                                       "entry": "meta" if (trailing + frames) % 5 == 0 else "data",
                                       "sort": False, "data_seed": 11, "frames": frames,
                                       "bytes": frames * fr_ + trailing,
                                       "claimed": frames + (1 if meta == "more" else 0) - (1 if meta == "stale" and frames > 1 else 0),
                                       "meta": meta, "bursts": []}


# ---------------------------------------------------------------------------------------------

class Violation(Exception):
    def __init__(self, clause, sig, detail):
        self.clause, self.sig, self.detail = clause, sig, detail


def run_plan(plan):
    root = new_scratch("c11")
    try:
        return _run(plan, root)
    finally:
        rm_scratch(root)


def _tick(plan, i):
    """The virtual clock (the `time` module seen by spikeglx) advances between the phases of a run."""
    from sim.session import SimClock
    gaps = plan.get("clock_gaps") or []
    if i < len(gaps):
        SimClock.now += gaps[i]


def _run(plan, root):
    from sim import session as _session
    spikeglx.time = _session._FixedTime          # virtual clock: time()/monotonic()/sleep() are simulated
    _session.SimClock.now = 1000.0
    nap = plan["nap"]
    nc = nap + 1
    dt = np.dtype(plan.get("dtype", "int16"))
    frame = nc * dt.itemsize
    fs = world.meta_fs(plan["fixture"])
    total_final = plan["bytes"] + sum(b for _, b in plan["bursts"]) + sum(plan.get("pre_open", [])) + (plan.get("reopen") or 0)
    nfr_stream = total_final // frame + 2
    data = world.make_data(plan["data_seed"], nfr_stream, nap).astype(dt)
    stream = data.tobytes()
    stem = "rec_g0_t0.imec0"
    binf = root / f"{stem}.ap.bin"
    metaf = root / f"{stem}.ap.meta"
    size_fields = "none" if plan["meta"] == "none" else plan.get("meta_fields", "complete")
    metaf.write_text(world.make_meta_text(plan["fixture"], nap, plan["claimed"], size_fields=size_fields,
                                          time_decimals=(4 if plan["seed"] % 5 == 2 else None)))     # the duration with four decimals, as the acquisition software writes it
    log = []
    stats = {"faults": {}, "probes": {}, "outcomes": {}, "distinct": [], "steps": 0, "sim_time": 0.0}

    def probe(name):
        stats["probes"][name] = stats["probes"].get(name, 0) + 1

    def fault(name):
        stats["faults"][name] = stats["faults"].get(name, 0) + 1

    if plan["form"] == "cbin":
        # writer produced `frames` frames, they were compressed (complete pair), source removed
        binf.write_bytes(stream[: plan["bytes"]])
        import mtscomp
        mtscomp.compress(binf, out=binf.with_suffix(".cbin"), outmeta=binf.with_suffix(".ch"),
                         sample_rate=(30000.0 if plan.get("ch_rate") == "nominal" else fs), n_channels=nc, dtype=np.int16, chunk_duration=plan["chunk"],
                         n_threads=1, check_after_compress=False, quiet=True)
        binf.unlink()
        target = binf.with_suffix(".cbin")
        fault("cbin_shorter_than_meta" if plan["frames"] < plan["claimed"] else "cbin_longer_than_meta")
    else:
        if plan.get("symlink"):
            import os as _os
            store = root / "store" / "a1"
            store.mkdir(parents=True)
            _os.symlink(_os.path.relpath(store / "SHA256E-s0--77aa.bin", root), binf)
            probe("data_file_is_a_symlink_into_a_store")
        hole = None
        if plan.get("sparse") and plan["bytes"] >= 6 * 4096:
            a_ = 4096
            b_ = a_ + 4096 * max(1, min(3, plan["bytes"] // 4096 - 3))
            stream = stream[:a_] + bytes(b_ - a_) + stream[b_:]          # the recording really is zero there
            hole = (a_, b_)
            probe("file_with_a_hole")
        with open(binf, "wb") as f:
            if hole:
                f.write(stream[: hole[0]])
                f.seek(hole[1])
                f.write(stream[hole[1]: plan["bytes"]])
            else:
                f.write(stream[: plan["bytes"]])
        target = binf
        trailing = plan["bytes"] % frame
        if trailing:
            fault("writer_crash_mid_frame")
            probe("trailing>=half_frame" if trailing * 2 >= frame else "trailing<half_frame")
            if trailing * 2 == frame:
                probe("trailing==half_frame")
        if plan["meta"] == "none":
            fault("meta_without_size_fields")
        elif plan["claimed"] * frame < plan["bytes"] - trailing:
            fault("stale_meta_file_longer")
        elif plan["claimed"] * frame > plan["bytes"]:
            fault("truncated_copy_file_shorter")

    # --- the writer task, stepped from the tracer ------------------------------------------
    state = {"size": plan["bytes"], "ev": 0, "grown_at": []}
    bursts = {}
    for at, nb in plan["bursts"]:
        bursts[at] = bursts.get(at, 0) + nb
    wf = open(binf, "ab") if plan["form"] == "bin" else None

    def writer_step():
        k = state["ev"]
        state["ev"] += 1
        nb = bursts.get(k)
        if nb and wf is not None:
            wf.write(stream[state["size"]: state["size"] + nb])
            wf.flush()
            state["size"] += nb
            state["grown_at"].append(k)
            fault("growth_during_open")

    src = spikeglx.__file__

    def local_trace(frame_, event, arg):
        if event == "line":
            writer_step()
        return local_trace

    def global_trace(frame_, event, arg):
        co = frame_.f_code
        if co.co_filename == src and co.co_name in TRACED:
            return local_trace
        return None

    cls = getattr(spikeglx, plan["reader"])
    xkw = {}
    if plan.get("kw_meta_file") and plan["form"] == "bin" and plan.get("entry") != "meta":
        elsewhere = root / "elsewhere"
        elsewhere.mkdir()
        metaf = metaf.rename(elsewhere / "the.meta")
        xkw["meta_file"] = metaf
        probe("meta_file_keyword")
    if plan.get("kw_ch_file") and plan["form"] == "bin":
        import mtscomp
        tmpb = root / "other.bin"
        tmpb.write_bytes(stream[: max(1, plan["claimed"]) * frame] if dt == np.dtype("int16") else stream[: 4 * nc])
        mtscomp.compress(tmpb, out=root / "other.cbin", outmeta=root / "other.ch", sample_rate=fs, n_channels=nc, dtype=np.int16,
                         chunk_duration=1.0, n_threads=1, check_after_compress=False, quiet=True)
        tmpb.unlink()
        (root / "other.cbin").unlink()
        xkw["ch_file"] = root / "other.ch"
        probe("ch_file_keyword_with_flat_binary")
    if plan.get("entry") == "meta":
        target = metaf
        probe("opened_through_the_meta_path")
    if plan["seed"] % 4 == 1:
        target = str(target)          # a plain string instead of a Path object
    dkw = {} if dt == np.dtype("int16") else {"dtype": dt.name}
    B0 = state["size"]
    sr = None
    err = None
    two_phase = bool(plan.get("two_phase"))
    sys.settrace(global_trace)
    try:
        try:
            if two_phase:
                sr = cls(target, open=False, ignore_warnings=plan["ignore_warnings"], sort=plan["sort"], **dkw, **xkw)
                sys.settrace(None)
                _ = sr.shape, sr.ns, sr.rl        # queried before open(): must not raise
                for nb in plan.get("pre_open", []):      # the writer goes on between construction and open()
                    if wf is not None:
                        wf.write(stream[state["size"]: state["size"] + nb])
                        wf.flush()
                        state["size"] += nb
                        fault("growth_between_construction_and_open")
                B0 = state["size"]
                sys.settrace(global_trace)
                sr.open()
            elif plan.get("use_with"):
                with cls(target, open=False, ignore_warnings=plan["ignore_warnings"], sort=plan["sort"], **dkw, **xkw) as sr_:
                    sr = sr_
                sr.open()        # leaving the block closed it; the oracle reads through a fresh open()
            else:
                sr = cls(target, ignore_warnings=plan["ignore_warnings"], sort=plan["sort"], **dkw, **xkw)
        finally:
            sys.settrace(None)
    except Exception as e:
        err = e
        tb = traceback.format_exc()
    B1 = state["size"]
    _tick(plan, 0)
    stats["steps"] = state["ev"]
    if wf is not None:
        wf.close()
    log.append(["open", plan["reader"], B0, B1, state["grown_at"], type(err).__name__ if err else "ok"])
    if state["grown_at"]:
        probe("file_grew_between_traced_lines")
    stats["sim_time"] = (B1 // frame) / fs + sum(plan.get("clock_gaps") or [])      # acquisition time written + simulated time that passed between the phases

    mf = plan.get("meta_fields", "complete")
    sigbase = f"{plan['reader']}:{plan['form']}:{plan['meta']}" + ("" if dt == np.dtype("int16") else f":{dt.name}") + (f"({mf})" if mf != "complete" and plan["meta"] != "none" else "") + (":two-phase" if two_phase else "")
    viol = None
    try:
        if err is not None:
            raise Violation("C11.O1", f"{sigbase}:{type(err).__name__}",
                            f"constructing {plan['reader']} raised {type(err).__name__}: {err} | bytes={B0}->{B1} frame={frame} claimed={plan['claimed']} | {tb.splitlines()[-3:]}")
        _oracle(plan, sr, stream, frame, nc, fs, B0, B1, log, probe, sigbase)
        _tick(plan, 1)
        if plan.get("reopen") is not None and plan["form"] == "bin":
            if plan["reader"] == "OnlineReader" and plan["reopen"]:
                _o5(plan, sr, stream, frame, nc, state, binf, sigbase, fault, log)
            elif plan["reopen"] and plan.get("reads_after_growth", True):
                # offline reader kept open while the writer goes on: whatever count it exposes now must be readable
                nb = plan["reopen"]
                with open(binf, "ab") as g:
                    g.write(stream[state["size"]: state["size"] + nb])
                state["size"] += nb
                fault("growth_after_offline_reader_opened")
                try:
                    n_now = int(sr.ns)
                    rows = sr[:, :]
                    lastrow = sr[n_now - 1] if n_now >= 1 else None
                    rl_now = sr.rl
                except Exception as e:
                    raise Violation("C11.O5", f"{sigbase}:offline-after-growth-raises:{type(e).__name__}",
                                    f"read through the open Reader after the file grew raised {type(e).__name__}: {e} (ns reported {sr.ns if hasattr(sr, 'ns') else '?'})")
                hi2 = state["size"] // frame
                rawn = np.frombuffer(stream[: hi2 * frame], dtype=dt).reshape(hi2, nc)
                order_ = np.asarray(sr.raw_channel_order)
                s2v_ = np.asarray(sr.channel_conversion_sample2v["ap"])
                if rows.shape[0] != n_now or n_now > hi2 or not np.array_equal(rows, (rawn[:n_now].astype(np.float32)[..., order_] * s2v_[order_]).astype(np.float32)):
                    raise Violation("C11.O5", f"{sigbase}:offline-after-growth", f"after growth the open Reader reports ns={n_now} but sr[:, :] has {rows.shape[0]} rows / wrong values (file holds {hi2})")
                if abs(rl_now - n_now / fs) > 1e-9 * max(1.0, n_now / fs):
                    raise Violation("C11.O4", f"{sigbase}:offline-after-growth-rl", f"rl={rl_now} does not match ns={n_now}")
                plan = dict(plan, reopen=0)
            first_open = None
            if plan.get("reopen_keep_open") and not plan.get("reopen_same"):
                first_open = sr          # two readers of one (growing) file alive in one process
                first_N = int(sr.ns) if plan["reader"] != "OnlineReader" else None
            else:
                sr.close()
            same_obj = sr if plan.get("reopen_same") else None
            sr = None
            nb = plan["reopen"] if plan["reader"] != "OnlineReader" else 0
            if plan["reader"] == "OnlineReader":
                nb = 0
            if nb:
                with open(binf, "ab") as g:
                    g.write(stream[state["size"]: state["size"] + nb])
                state["size"] += nb
                fault("growth_before_second_opening")
            B2 = state["size"]
            _tick(plan, 3)
            probe("second_opening_same_path_same_process")
            try:
                if same_obj is not None:
                    probe("close_then_open_on_the_same_object")
                    same_obj.open()
                    sr = same_obj
                else:
                    sr = cls(target, ignore_warnings=plan["ignore_warnings"], sort=plan["sort"], **dkw, **xkw)
            except Exception as e:
                raise Violation("C11.O1", f"{sigbase}:second-open:{type(e).__name__}",
                                f"second opening of the same path in the same process raised {type(e).__name__}: {e} | bytes={B2} frame={frame} claimed={plan['claimed']}")
            log.append(["reopen", B2])
            saved_bursts = plan["bursts"]
            try:
                plan["bursts"] = []
                _oracle(plan, sr, stream, frame, nc, fs, B2, B2, log, probe, sigbase + ":second-open")
                if first_open is not None:
                    # the reader opened first must be unaffected by the second one: still readable, nothing beyond the file
                    probe("two_readers_of_one_file_alive")
                    try:
                        n1 = int(first_open.ns)
                        rows1 = first_open[:, :]
                    except Exception as e:
                        raise Violation("C11.O5", f"{sigbase}:first-reader-after-second-open:{type(e).__name__}",
                                        f"reading through the first reader after a second one was opened on the same file raised {type(e).__name__}: {e}")
                    hi2 = B2 // frame
                    rawn = np.frombuffer(stream[: hi2 * frame], dtype=dt).reshape(hi2, nc)
                    o_ = np.asarray(first_open.raw_channel_order)
                    g_ = np.asarray(first_open.channel_conversion_sample2v["ap"])
                    k1 = rows1.shape[0]
                    if k1 > hi2 or (first_N is not None and (n1 != first_N or k1 != first_N)) or \
                            not np.array_equal(rows1, (rawn[:k1].astype(np.float32)[..., o_] * g_[o_]).astype(np.float32)):
                        raise Violation("C11.O5", f"{sigbase}:first-reader-after-second-open",
                                        f"the first reader changed after a second one was opened on the same file: ns {first_N}->{n1}, {k1} rows read, file holds {hi2}")
                    first_open.close()
            finally:
                plan["bursts"] = saved_bursts
    except Violation as v:
        viol = {"clause": v.clause, "sig": v.sig, "detail": v.detail}
    finally:
        if sr is not None:
            try:
                sr.close()
            except Exception:
                pass
    trailing = plan["bytes"] % frame
    if trailing or plan["claimed"] * frame != plan["bytes"] or plan["meta"] == "none":
        gclass = "none" if not state["grown_at"] else ("one" if len(state["grown_at"]) == 1 else "many")
        stats["distinct"].append(
            f"{plan['reader']}{'2' if two_phase else ''}|{plan['form']}|{plan['meta']}|{np.sign(plan['bytes'] - plan['claimed'] * frame)}|t{trailing}|f{frame}|g{gclass}|w{int(plan['ignore_warnings'])}")
    stats["outcomes"]["violation" if viol else "held"] = 1
    return {"violation": viol, "stats": stats, "digest": digest(log), "sample": {"plan": plan, "log": log[:6]}}


def _o5(plan, sr, stream, frame, nc, state, binf, sigbase, fault, log):
    """O5: reads through an already-open OnlineReader after the file grew further must not raise
    and must return the file's bytes at the positions asked for."""
    M0 = int(sr._raw.shape[0])
    nb = plan["reopen"]
    with open(binf, "ab") as g:
        g.write(stream[state["size"]: state["size"] + nb])
    state["size"] += nb
    fault("growth_after_online_reader_opened")
    _tick(plan, 2)
    hi = state["size"] // frame
    raw = np.frombuffer(stream[: hi * frame], dtype=np.dtype(plan.get("dtype", "int16"))).reshape(hi, nc)
    order = np.asarray(sr.raw_channel_order)
    s2v = np.asarray(sr.channel_conversion_sample2v["ap"])
    try:
        n_live = sr.ns
        shp = sr.shape
        full = sr[:, :]
        head = sr[0:M0]
    except Exception as e:
        raise Violation("C11.O5", f"{sigbase}:after-growth-raises:{type(e).__name__}", f"read through the open OnlineReader after growth raised {type(e).__name__}: {e}")
    log.append(["o5", M0, int(n_live), int(full.shape[0])])
    if n_live != hi or shp[0] != hi:
        raise Violation("C11.O5", f"{sigbase}:after-growth-ns", f"OnlineReader.ns={n_live} after growth, file holds {hi} complete frames")
    fs_ = world.meta_fs(plan["fixture"])
    rl_ = sr.rl
    if abs(rl_ - n_live / fs_) > 1e-9 * max(1.0, n_live / fs_):
        raise Violation("C11.O4", f"{sigbase}:after-growth-rl", f"duration rl={rl_} does not match the exposed sample count {n_live} (/fs = {n_live / fs_}) after growth")
    for a in (full, head):
        k = a.shape[0]
        if k > hi or not np.array_equal(a, (raw[:k].astype(np.float32)[..., order] * s2v[order]).astype(np.float32)):
            raise Violation("C11.O5", f"{sigbase}:after-growth-values", f"read after growth returned {k} rows that are not the file's first {k} frames (file holds {hi})")


def _oracle(plan, sr, stream, frame, nc, fs, B0, B1, log, probe, sigbase):
    lo, hi = B0 // frame, B1 // frame
    if plan["form"] == "cbin":
        lo = hi = plan["frames"]
    # O2: exposed frame count
    try:
        N = sr.shape[0]
        ns = sr.ns
        rl = sr.rl
    except Exception as e:
        raise Violation("C11.O2", f"{sigbase}:shape-raises:{type(e).__name__}", f"shape/ns/rl raised {e!r}")
    log.append(["shape", int(N), int(ns)])
    if N != ns:
        raise Violation("C11.O2", f"{sigbase}:shape!=ns", f"shape[0]={N} ns={ns}")
    if plan["reader"] == "OnlineReader":
        # ns is live for the online reader: after the writer stopped it must be floor(B1/frame)
        if N != hi:
            raise Violation("C11.O2", f"{sigbase}:ns", f"online ns={N}, file holds {hi} complete frames ({B1} bytes, frame {frame})")
    else:
        if not (lo <= N <= hi):
            raise Violation("C11.O2", f"{sigbase}:ns", f"ns={N}, file held {lo}..{hi} complete frames during open ({B0}->{B1} bytes, frame {frame}, claimed {plan['claimed']})")
    # O4: duration matches the exposed sample count
    if abs(rl - N / fs) > 1e-9 * max(1.0, N / fs):
        raise Violation("C11.O4", f"{sigbase}:rl", f"rl={rl} but ns/fs={N / fs}")
    if sr.fs != fs:
        raise Violation("C11.O4", f"{sigbase}:fs", f"fs {sr.fs} != {fs}")
    # O3: values = file prefix, for exactly the rows requested ∩ [0, N)
    order = np.asarray(sr.raw_channel_order)
    s2v = np.asarray(sr.channel_conversion_sample2v["ap"])
    raw = np.frombuffer(stream[: hi * frame], dtype=np.dtype(plan.get("dtype", "int16"))).reshape(hi, nc)

    def expect(rows):
        return (raw[rows].astype(np.float32)[..., order] * s2v[order]).astype(np.float32)

    def rd(desc, fn):
        try:
            return fn()
        except Exception as e:
            raise Violation("C11.O3", f"{sigbase}:read-raises:{desc}:{type(e).__name__}",
                            f"read {desc} raised {type(e).__name__}: {e} (N={N}, file frames {lo}..{hi})")

    full = rd("[:, :]", lambda: sr[:, :])
    nread = full.shape[0]
    log.append(["read_all", int(nread)])
    if not (lo <= nread <= hi) or full.shape[1] != nc:
        raise Violation("C11.O3", f"{sigbase}:rows", f"sr[:, :] returned shape {full.shape}; file held {lo}..{hi} complete frames of {nc} channels")
    if (plan["bursts"] == [] or plan["reader"] == "Reader") and nread != N:
        raise Violation("C11.O3", f"{sigbase}:rows!=ns", f"sr[:, :] returned {nread} rows but ns={N}: the exposed count and the readable frames disagree")
    if not np.array_equal(full, expect(slice(0, nread))):
        raise Violation("C11.O3", f"{sigbase}:values", "sr[:, :] differs from float32(file prefix) x gain")
    M = nread
    if M >= 1:
        last = rd("[M-1]", lambda: sr[M - 1])
        if last.shape != (nc,) or not np.array_equal(last, expect(M - 1)):
            raise Violation("C11.O3", f"{sigbase}:last-row", f"sr[{M - 1}] wrong shape/values: {last.shape}")
        neg = rd("[-1]", lambda: sr[-1])
        if not np.array_equal(neg, expect(M - 1)):
            raise Violation("C11.O3", f"{sigbase}:neg-row", "sr[-1] is not the last complete frame")
    beyond = rd("[M:M+5]", lambda: sr[M:M + 5])
    if beyond.shape[0] != 0:
        raise Violation("C11.O3", f"{sigbase}:beyond", f"sr[{M}:{M + 5}] returned {beyond.shape[0]} rows beyond the file")
    a = max(0, M - 2)
    strad = rd("[M-2:M+10]", lambda: sr[a:M + 10])
    if strad.shape[0] != M - a or not np.array_equal(strad, expect(slice(a, M))):
        raise Violation("C11.O3", f"{sigbase}:straddle", f"sr[{a}:{M + 10}] returned {strad.shape[0]} rows, expected {M - a}")
    if M >= 3:
        mid = rd("[1:M-1, 0]", lambda: sr[1:M - 1, 0])
        if not np.array_equal(mid, expect(slice(1, M - 1))[:, 0]):
            raise Violation("C11.O3", f"{sigbase}:mid", "sr[1:M-1, 0] differs from the file")
    if M >= 2:
        tail = rd("[-2:]", lambda: sr[-2:])
        if tail.shape[0] != 2 or not np.array_equal(tail, expect(slice(M - 2, M))):
            raise Violation("C11.O3", f"{sigbase}:neg-slice", f"sr[-2:] returned {tail.shape[0]} rows / wrong values; {M} frames present")
        neg2 = rd("[-M-5:2]", lambda: sr[-M - 5:2])
        if neg2.shape[0] != 2 or not np.array_equal(neg2, expect(slice(0, 2))):
            raise Violation("C11.O3", f"{sigbase}:neg-slice-start", f"sr[-M-5:2] returned {neg2.shape[0]} rows")
    if M >= 2:
        back = rd("[::-1]", lambda: sr[::-1])           # decreasing slice: the same frames, last first
        if back.shape[0] != M or not np.array_equal(back, expect(slice(0, M))[::-1]):
            raise Violation("C11.O3", f"{sigbase}:reversed", f"sr[::-1] returned {back.shape[0]} rows / wrong values; {M} frames present")
    dd, ss = rd("read()", lambda: sr.read())            # defaults: first 10000 samples + sync
    k = min(M, 10000)
    if dd.shape[0] != k or ss.shape[0] != k or not np.array_equal(dd, expect(slice(0, k))):
        raise Violation("C11.O3", f"{sigbase}:read-default", f"read() returned {dd.shape[0]} data rows / {ss.shape[0]} sync rows; {M} frames present")
    sd = rd("read_sync()", lambda: sr.read_sync())
    if sd.shape[0] != k:
        raise Violation("C11.O3", f"{sigbase}:read_sync-default", f"read_sync() returned {sd.shape[0]} rows; {M} frames present")
    d, sy = rd("read_samples", lambda: sr.read_samples(0, M + 3))
    if d.shape[0] != M or sy.shape[0] != M:
        raise Violation("C11.O3", f"{sigbase}:read_samples", f"read_samples(0,{M + 3}) returned {d.shape[0]} data rows / {sy.shape[0]} sync rows; {M} frames present")
    log.append(["reads_ok", int(M)])
