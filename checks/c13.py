"""C13 — extracted waveforms equal the source data and the saved files agree row by row.

System (real): waveform_extraction.extract_wfs_cbin, write_wfs_chunk, _make_wfs_table,
extract_wfs_array, utils.make_channel_index, WaveformsLoader, spikeglx.Reader,
decompress_to_scratch (for .cbin input), pandas/pyarrow.
Stubs: joblib (SimParallel: tasks = chunks; which worker takes which chunk, in which order chunks
complete and how their lines interleave is drawn from the seed), mtscomp thread pool.
preprocess_steps=[] in every run: with preprocessing the 'source traces' are chunk-dependent filter
outputs and chunk independence is not a property of the code.
"""
import os
from pathlib import Path

import numpy as np
import pandas as pd

from sim.common import rng_of, digest, new_scratch, rm_scratch, setup_imports, sha1_file
from sim import world, sched, session
from sim.sched import SCHED

setup_imports()
import spikeglx  # noqa: E402
import ibldsp.waveform_extraction as wfx  # noqa: E402

PROP = "C13"
LEVEL = "exploration"
TIERS = {
    "quick": {"runs": 600, "budget_s": 480, "det_pairs": 3},
    "thorough": {"runs": 100000, "budget_s": 1800, "det_pairs": 6},
}
SYSTEM_IN_RUN_PROCESS = True      # the code under test runs in the run process itself: its death by signal is the system's crash
RUN_TIMEOUT = 900
SHRINK_BUDGET = 40
RULE = (
    "one run = one seeded (recording, geometry, spike train, max_wf, extraction seed) executed once with one worker and chunk size A "
    "(reference) and once with n workers, chunk size B and a seeded schedule (which worker takes which chunk, completion order, "
    "line-level interleaving of write_wfs_chunk incl. the memmap store). Spike trains put spikes inside both margins, exactly on "
    "chunk boundaries, duplicated across units, with peak channels at both probe ends and unit sizes below/at/above max_wf. "
    "Oracle: every saved row equals the source window on the independently computed neighbourhood (NaN padded), files agree row by "
    "row, per-unit counts, identical table/traces across (chunksize, workers, schedule), no two chunk tasks leaving different contents "
    "in one memmap row (store history with contents), loader returns the saved rows. distinct_nontrivial counts distinct (chunk completion order, workers, chunk-size class) "
    "among runs with >= 2 workers and >= 2 non-empty chunks."
)
COMPONENTS = {
    "real": ["ibldsp.waveform_extraction.extract_wfs_cbin/write_wfs_chunk/_make_wfs_table/extract_wfs_array/WaveformsLoader",
             "ibldsp.utils.make_channel_index", "spikeglx.Reader (+ decompress_to_scratch, mtscomp for .cbin input)", "pandas/pyarrow parquet", "numpy open_memmap"],
    "stub": ["joblib.Parallel/delayed (SimParallel; tasks = chunks; memmap argument wrapped in a recording proxy)", "mtscomp thread pool", "joblib.cpu_count"],
}
ASSUMPTIONS = [
    "threads stand in for joblib's worker processes (arguments pickled per task, the memmap shared as loky shares it)",
    "spike times are sorted (the code's searchsorted presupposes it); no duplicate spike time within one unit",
    "which spikes are chosen is not prescribed: any min(max_wf, valid) distinct spikes of the unit are accepted",
    "geometry (x, y) is taken from the reader (C08's subject); the neighbourhood table is recomputed independently from it",
    "templates[i] is read as the template of the i-th unit present in the table (the loader's own notion of units)",
]
STEM = "rec_g0_t0.imec0"
TROUGH, LENGTH = 42, 128


def gen_plan(seed, tier="quick"):
    r = rng_of(seed)
    fixture = r.choice(["NP1", "NP1", "NP21", "NP24", "NP24_int"])      # NP24_int: four shanks interleaved channel by channel
    nap = r.choice([32, 32, 48, 64, 96, 128])
    ns = r.choice([4000, 6000, 10000, r.randrange(4000, 30000)])
    if nap >= 96:
        ns = min(ns, 12000)
    chunk_ref = r.choice([500, 1000, 3000, 10000])
    chunk = r.choice([500, 500, 777, 1000, 1500, 3000, 4096, 10000, r.randrange(500, 10000)])
    while ns / chunk > 60:
        chunk *= 2
    while ns / chunk_ref > 60:
        chunk_ref *= 2
    n_jobs = r.choice([1, 2, 2, 3, 4, 5, 6, 8])
    nunits = r.choice([1, 2, 3, 3, 5, 8])
    if tier == "thorough" and r.random() < 0.15:              # deeper bounds in the thorough tier
        n_jobs = r.choice([12, 16])
        nunits = r.choice([8, 12, 20])
    max_wf = r.choice([3, 5, 8, 16, 40])
    # spike train
    times = set()
    units = []
    for u in range(nunits):
        cnt = r.choice([0, 1, max_wf - 1, max_wf, max_wf + 1, 2 * max_wf, r.randrange(1, 3 * max_wf + 2)])
        cnt = max(0, cnt)
        ts = set()
        special = [0, 1, TROUGH - 1, TROUGH, TROUGH + 1, TROUGH + 2, ns - 1, ns - (LENGTH - TROUGH) - 1, ns - (LENGTH - TROUGH),
                   ns - (LENGTH - TROUGH) + 1, ns - (LENGTH - TROUGH) - 2]
        for c in (chunk, chunk_ref):
            for k in range(1, ns // c + 1):
                special += [k * c - 1, k * c, k * c + 1, k * c - TROUGH, k * c + TROUGH, k * c - (LENGTH - TROUGH)]
        for _ in range(cnt):
            t = r.choice(special) if r.random() < 0.45 else r.randrange(0, ns)
            t = max(0, min(ns - 1, t))
            ts.add(t)
        units.append(sorted(ts))
    if r.random() < 0.03 and ns >= 10000:
        # one very active unit and a large max_wf (limits expressed in waveforms per unit, not in samples)
        max_wf = 600
        units[0] = sorted(r.sample(range(50, ns - 100), 700))
    # duplicates across units
    if nunits >= 2 and r.random() < 0.5 and units[0]:
        units[1] = sorted(set(units[1]) | set(r.sample(units[0], min(len(units[0]), 3))))
    labels = r.sample(range(-3, 50), nunits)
    lab_range = r.choice(["small", "small", "medium", "large"])      # cluster ids are arbitrary integers: curated ids can be large
    if lab_range == "medium":
        labels = r.sample(range(100, 30000), nunits)
    elif lab_range == "large":
        labels = r.sample(range(10**6, 2 * 10**9), nunits)
    spikes = []
    for u, ts in enumerate(units):
        for t in ts:
            pk = r.choice([0, 1, nap - 1, nap - 2, r.randrange(nap), r.randrange(nap)])
            spikes.append((t, labels[u], pk))
    spikes.sort(key=lambda x: (x[0], x[1]))
    if r.random() < 0.5 and spikes:
        # make the very first spike of the recording valid (and likely selected)
        first_valid = r.randrange(TROUGH + 1, min(ns - LENGTH, 400))
        spikes = [(first_valid + s[0] if i == 0 and s[0] <= TROUGH else s[0], s[1], s[2]) for i, s in enumerate(spikes)]
        spikes.sort(key=lambda x: (x[0], x[1]))
    # no two IDENTICAL spikes (same sample, unit and peak channel) ...
    seen, uniq = set(), []
    for s_ in spikes:
        if (s_[0], s_[1]) not in seen:
            seen.add((s_[0], s_[1]))
            uniq.append(s_)
    spikes = uniq
    # ... but a unit may well have two spikes at the same sample on different peak channels (a double detection)
    if spikes and r.random() < 0.15:
        t0, u0, pk0 = r.choice(spikes)
        pk1 = (pk0 + r.choice([1, 2, nap // 2])) % nap
        if pk1 != pk0:
            spikes.append((t0, u0, pk1))
            spikes.sort(key=lambda x: (x[0], x[1]))
    return {
        "property": PROP, "seed": seed, "fixture": fixture, "nap": nap, "ns": ns, "form": r.choice(["bin", "bin", "cbin"]),
        "data_seed": r.randrange(1 << 30), "spikes": [list(s) for s in spikes], "max_wf": max_wf,
        "wf_seed": r.choice([None if False else 0, 1, 7, r.randrange(1000)]),
        "chunk_ref": chunk_ref, "chunk": chunk, "n_jobs": n_jobs,
        "p_switch": r.choice([0.0, 0.0, 0.02, 0.1, 0.5, 1.0]), "victim": r.choice([None, None, 0, n_jobs - 1]),
        "order": r.choice([None, None, "reverse", "shuffle"]), "sched_seed": r.randrange(1 << 30), "trace": None,
        "io_mode": r.random() < 0.4,          # pre-emption decisions only around lines that touch files / store into arrays
        "delay": ({"tf": r.random(), "ef": r.random(), "sf": r.random(), "sf2": r.random(), "occ": r.choice(["first", "first", "last", "any"]),
                   "where": r.choice(["end", "start", "any", "site", "site", "site"])} if r.random() < 0.4 else None),   # hold one chunk task at a file-touching line
        # an earlier extraction in the same process on another probe geometry with the same channel count
        "prelude": r.choice([None, None] + [f for f in ("NP1", "NP21", "NP24") if f != fixture]),
        # history: an earlier extraction on this .cbin died while decompressing into the shared scratch directory
        # default preprocessing (butterworth + phase shift): waveforms are then filter outputs, so equality with the
        # source is not demanded; independence from the worker count and the schedule still is (same chunk size)
        "preprocess": "default" if r.random() < 0.2 else "none",
        "spike_dtype": r.choice(["int64", "int64", "uint64", "int32", "uint32"]),     # spike sorters save unsigned times
        # ... and integer cluster labels of the narrowest type that holds them
        "cluster_dtype": ("int64" if False else r.choice({"small": ["int64", "int32", "int16"], "medium": ["int64", "int32", "int16"], "large": ["int64", "int32"]}[lab_range])),
        "n_jobs_minus_one": r.random() < 0.06,                                        # n_jobs=-1: joblib's "all CPUs"
        "prelude_same_outdir": r.random() < 0.4,
        "explicit_h": r.random() < 0.3,
        "reader_sort_false": r.random() < 0.2,
        # joblib's thread backend (with joblib.parallel_backend("threading")): the chunk workers share one process
        "backend": "threading" if r.random() < 0.12 else "loky",
        "env": ({k: v for k, v in (("SLURM_CPUS_PER_TASK", r.choice(["1", "2"])), ("LOKY_MAX_CPU_COUNT", r.choice(["1", "2"])),
                                   ("OMP_NUM_THREADS", "1"), ("JOBLIB_MULTIPROCESSING", "0")) if r.random() < 0.6} if r.random() < 0.12 else None),
        "symlink": r.random() < 0.1,        # the recording's data file is a symbolic link into a store, its .meta beside the link     # reader_kwargs={"sort": False}: traces and geometry in the file's own channel order
        "interrupted_first": r.choice([None, None, None, {"kind": r.choice(["kill", "torn", "io_error", "interrupt", "short"]), "rseed": r.randrange(1 << 30)}]),
    }


class Violation(Exception):
    def __init__(self, clause, sig, detail):
        self.clause, self.sig, self.detail = clause, sig, detail


_installed = [False]


def _install():
    if not _installed[0]:
        import neuropixel, ibldsp.utils, ibldsp.fourier, ibldsp.voltage, ibldsp.waveform_extraction
        sched.install([wfx], watch=[spikeglx, neuropixel, ibldsp.utils, ibldsp.fourier, ibldsp.voltage, ibldsp.waveform_extraction])
        session.pin_dependencies()
        _installed[0] = True


def run_plan(plan):
    base = new_scratch("c13")
    try:
        return _run(plan, base)
    finally:
        rm_scratch(base)


def _neighbours(x, y, radius=200.0):
    nc = len(x)
    dx = x[:, None] - x[None, :]
    dy = y[:, None] - y[None, :]
    near = (dx * dx + dy * dy) <= radius * radius
    width = int(near.sum(axis=0).max())
    out = np.full((nc, width), nc, dtype=int)
    for c in range(nc):
        idx = np.flatnonzero(near[c])
        out[c, :len(idx)] = idx
    return out


def _extract(plan, src, outdir, chunk, n_jobs, schedule, scratch):
    SCHED.reset()
    if schedule is not None and schedule.get("count_io"):
        SCHED.reset(rng=None, record_memmap=True, count_io=True)
    elif schedule is None:
        SCHED.reset(rng=None, record_memmap=True)
    elif schedule.get("trace") is not None:
        SCHED.reset(trace=schedule["trace"], record_memmap=True)
    else:
        rr = rng_of(schedule["seed"])
        order = None
        if schedule.get("order") == "reverse":
            order = list(range(n_jobs))[::-1]
        elif schedule.get("order") == "shuffle":
            order = list(range(n_jobs))
            rr.shuffle(order)
        SCHED.reset(rng=rr, p_switch=(max(schedule["p_switch"], 0.3) if schedule.get("io_mode") else schedule["p_switch"]),
                    victim=schedule.get("victim"), order=order, record_memmap=True, io_mode=bool(schedule.get("io_mode")),
                    delay=schedule.get("delay"), backend=plan.get("backend", "loky"))
    sp = np.array(plan["spikes"], dtype=np.int64).reshape(-1, 3)
    err = None
    kw = {}
    if plan.get("reader_sort_false"):
        kw["reader_kwargs"] = {"sort": False}
    if plan.get("explicit_h"):
        sx = spikeglx.Reader(src, **kw.get("reader_kwargs", {}))
        kw["h"] = {k: np.array(v) for k, v in sx.geometry.items()}
        sx.close()
    saved_env = {k: os.environ.get(k) for k in (plan.get("env") or {})}
    os.environ.update(plan.get("env") or {})
    try:
        sdt = np.dtype(plan.get("spike_dtype", "int64"))
        cl = sp[:, 1] if (sdt.kind == "i" or sp[:, 1].min(initial=0) >= 0) else sp[:, 1] - sp[:, 1].min()
        cdt = np.dtype(plan.get("cluster_dtype", "int64"))
        wfx.extract_wfs_cbin(src, outdir, sp[:, 0].astype(sdt), sp[:, 1].astype(cdt), sp[:, 2].astype(np.int32 if sdt.itemsize == 4 else np.int64),
                             max_wf=plan["max_wf"], chunksize_samples=chunk,
                             n_jobs=(-1 if (plan.get("n_jobs_minus_one") and n_jobs > 1) else n_jobs), preprocess_steps=(None if plan.get("preprocess") == "default" else []),
                             seed=plan["wf_seed"], scratch_dir=scratch, **kw)
    except Exception as e:
        import traceback
        err = (e, traceback.format_exc())
    finally:
        for k_, v_ in saved_env.items():
            if v_ is None:
                os.environ.pop(k_, None)
            else:
                os.environ[k_] = v_
    return {"err": err, "trace": [list(t) for t in SCHED.trace], "tasks": list(SCHED.task_log), "mm": list(SCHED.mm_writes),
            "io_counts": dict(SCHED.io_counts), "io_sites": {k: list(v) for k, v in SCHED.io_sites.items()}}


def _real_joblib_extract(plan, src, outdir, scratch):
    """The same call (same options as the simulated runs) under real joblib / loky worker processes."""
    import joblib
    saved = (wfx.__dict__["Parallel"], wfx.__dict__["delayed"])
    wfx.__dict__["Parallel"], wfx.__dict__["delayed"] = joblib.Parallel, joblib.delayed
    try:
        res = _extract(plan, src, outdir, plan["chunk"], max(2, plan["n_jobs"]), None, scratch)
    finally:
        wfx.__dict__["Parallel"], wfx.__dict__["delayed"] = saved
        try:
            from joblib.externals.loky import get_reusable_executor
            get_reusable_executor().shutdown(wait=True)
        except Exception:
            pass
    return {"err": res["err"]}


def _count_io(plan):
    """Sequential pre-pass in a forked process: number of file-touching lines each chunk task executes."""
    from sim.proc import run_child

    def child(report):
        base = new_scratch("c13cnt")
        try:
            res = _run(dict(plan, count_only=True), base)
            report({"io_sites": {} if "digest" in res else res})
        finally:
            rm_scratch(base)

    msgs, _ = run_child(child, timeout=600)
    for m in msgs:
        if "io_sites" in m:
            return {int(k): v for k, v in m["io_sites"].items()}
    return {}


def sweep_plans(tier, verif_seed):
    """(i) A few configurations are additionally executed under real joblib (fidelity of the stub).
    (ii) Hold-point sweeps: for seeded base configurations, EVERY file-touching line of EVERY non-empty chunk task is
    used once as the point at which that task is parked until all other workers have finished."""
    from sim.common import run_seed
    n = {"quick": 2, "thorough": 10}[tier]
    for i in range(n):
        p = gen_plan(run_seed(verif_seed, PROP + "-real", i), tier)
        p["n_jobs"] = max(2, p["n_jobs"])
        p["real_joblib"] = True
        yield p
    # one fixed plan whose spikes all lie inside the margins (known finding: the call raises instead of saving empty files)
    p0 = gen_plan(run_seed(verif_seed, PROP + "-novalid", 0), tier)
    p0.update({"spikes": [[5, 1, 3], [10, 1, 4], [p0["ns"] - 10, 2, 7]], "prelude": None, "interrupted_first": None, "form": "bin",
               "preprocess": "none", "n_jobs": 1})
    yield p0
    nbase = {"quick": 1, "thorough": int(os.environ.get("VERIF_C13_SWEEPS", "8"))}[tier]
    for b in range(nbase):
        s = run_seed(verif_seed, PROP + "-hold", b)
        p = gen_plan(s, tier)
        r = rng_of(s ^ 0xBEEF)
        p.update({"n_jobs": r.choice([2, 2, 3, 4]), "prelude": None, "interrupted_first": None, "p_switch": 0.0, "victim": None,
                  "order": None, "io_mode": False, "trace": None, "nap": min(p["nap"], 48)})
        p["ns"] = min(p["ns"], 12000)
        p["spikes"] = [sp for sp in p["spikes"] if sp[0] < p["ns"] and sp[2] < p["nap"]]
        while p["ns"] / p["chunk"] > 8:
            p["chunk"] *= 2
        sites_ = _count_io(p)
        cand = sched.hold_candidates(sites_)
        if tier == "quick":
            # the quick tier sweeps the task body's own sites (every one of them, first and last occurrence), capped
            cand = sched.hold_candidates(sites_, body_only=True)
            if len(cand) > 90:
                cand = sorted(r.sample(cand, 90))
        elif len(cand) > 400:
            cand = sorted(r.sample(cand, 400))
        for t, e in cand:
            yield dict(p, delay={"where": "abs", "task": t, "at": e}, sweep_of=b)


def _run(plan, base):
    _install()
    nap, ns = plan["nap"], plan["ns"]
    O = world.make_data(plan["data_seed"], ns, nap, amp=300)
    rec = base / "rec"
    binf = world.write_recording(rec, STEM, plan["fixture"], O)
    # model: calibrated traces through the reader (default sorting), geometry from the reader
    sr = spikeglx.Reader(binf)
    V = sr[:, :-sr.nsync]
    h = sr.geometry
    hx, hy = np.asarray(h["x"], dtype=float), np.asarray(h["y"], dtype=float)
    if plan.get("reader_sort_false"):
        # the file's own channel order: column order[i] of the file is column i of the sorted view, so the expected
        # traces and site positions are the sorted ones put back (no use of the reader's sort=False code path)
        order = np.asarray(sr.raw_channel_order)[:nap]
        Vf, xf, yf = np.empty_like(V), np.empty_like(hx), np.empty_like(hy)
        Vf[:, order], xf[order], yf[order] = V, hx, hy
        V, hx, hy = Vf, xf, yf
    neigh = _neighbours(hx, hy)
    sr.close()
    src = binf
    if plan["form"] == "cbin":
        s2 = spikeglx.Reader(binf)
        src = s2.compress_file(keep_original=False, chunk_duration=0.1, n_threads=1)
        s2.close()
    if plan.get("symlink"):
        store = rec / "store" / "a1"
        store.mkdir(parents=True)
        obj = store / ("SHA256E-s0--5d10" + src.suffix)
        src.rename(obj)
        os.symlink(os.path.relpath(obj, rec), src)
        if src.suffix == ".cbin":       # the header travels with the data file in such stores: link it too
            chf = src.with_suffix(".ch")
            objc = store / "SHA256E-s0--5d10.ch"
            chf.rename(objc)
            os.symlink(os.path.relpath(objc, rec), chf)
    sp = np.array(plan["spikes"], dtype=np.int64).reshape(-1, 3)
    log = []
    stats = {"faults": {}, "probes": {}, "outcomes": {}, "distinct": [], "steps": 0, "config": {}}
    viol = None

    def probe(name, n=1):
        stats["probes"][name] = stats["probes"].get(name, 0) + n

    valid = (sp[:, 0] > TROUGH) & (sp[:, 0] < ns - (LENGTH - TROUGH))
    if len(sp) and valid[0]:
        probe("first_spike_of_recording_valid")
    stats["config"][f"n_jobs={plan['n_jobs']}"] = 1
    stats["config"][plan["form"]] = 1
    stats["config"]["preprocess_" + plan.get("preprocess", "none")] = 1
    if plan.get("reader_sort_false"):
        stats["config"]["reader_sort_false"] = 1
    if plan.get("backend") == "threading":
        stats["config"]["thread_backend"] = 1
    if plan.get("symlink"):
        stats["config"]["data_file_is_a_symlink"] = 1
    sigbase = f"n{plan['n_jobs']}"
    try:
        if not valid.any():
            # no spike of the whole train lies farther than the window margins from both ends: every unit is due
            # min(max_wf, 0) = 0 waveforms, i.e. empty files - not an exception
            probe("no_valid_spike_at_all")
            od = base / "out_ref"
            od.mkdir(exist_ok=True)
            res = _extract(plan, src, od, plan["chunk_ref"], 1, None, base / "scratch")
            if res["err"]:
                e, tb = res["err"]
                raise Violation("C13.W3", f"no-valid-spike:raises:{type(e).__name__}", f"extract_wfs_cbin raised {type(e).__name__}: {e} although the call is legal: no spike lies inside the margins, so every unit should get 0 waveforms (spike samples {sp[:, 0].tolist()[:8]}, ns={ns})")
            out0 = _load(od)
            if len(out0["table"]) != 0 or out0["traces"].shape[0] != 0:
                raise Violation("C13.W3", "no-valid-spike:rows", f"{len(out0['table'])} rows extracted although no spike is valid")
            stats["outcomes"]["held"] = 1
            return {"violation": None, "stats": stats, "digest": digest(["novalid"]), "plan": dict(plan), "sample": None}
        outs = {}
        if plan.get("interrupted_first") and plan["form"] == "cbin":
            _interrupted_first(plan, src, base, probe, stats)
        if plan.get("prelude"):
            _prelude(plan, base, probe, stats, sigbase)
        pre = plan.get("preprocess") == "default"
        if plan.get("count_only"):
            od = base / "out_cnt"
            od.mkdir()
            rp = _extract(plan, src, od, plan["chunk"], plan["n_jobs"], {"count_io": True}, base / "scratch")
            return {} if rp["err"] else {t: c for t, c in rp["io_sites"].items() if c}
        for tag, chunk, n_jobs, schedule in (("ref", plan["chunk"] if pre else plan["chunk_ref"], 1, None),
                                             ("sim", plan["chunk"], plan["n_jobs"], {"seed": plan["sched_seed"], "p_switch": plan["p_switch"],
                                                                                   "victim": plan["victim"], "order": plan["order"], "trace": plan.get("trace"), "io_mode": plan.get("io_mode")})):
            od = base / f"out_{tag}"
            od.mkdir(exist_ok=True)
            if tag == "sim" and plan.get("delay") and plan["delay"].get("where") == "abs" and n_jobs > 1 and schedule.get("trace") is None:
                schedule = dict(schedule, delay={"task": plan["delay"]["task"], "at": plan["delay"]["at"]})
                probe("one_chunk_task_held_at_a_file_touching_line")
                probe("hold_point_sweep_plans")
            elif tag == "sim" and plan.get("delay") and n_jobs > 1 and schedule.get("trace") is None:
                pre_od = base / "out_pre"
                pre_od.mkdir()
                rp = _extract(plan, src, pre_od, chunk, n_jobs, {"count_io": True}, base / "scratch")
                busy = sorted(t for t, c in rp["io_counts"].items() if c > 0)
                if busy and not rp["err"]:
                    t = busy[min(len(busy) - 1, int(plan["delay"]["tf"] * len(busy)))]
                    schedule = dict(schedule, delay={"task": t, "at": sched.hold_index(plan["delay"], rp["io_sites"].get(t, []))})
                    probe("one_chunk_task_held_at_a_file_touching_line")
            res = _extract(plan, src, od, chunk, n_jobs, schedule, base / "scratch")
            stats["steps"] += sum(t[1] for t in res["trace"])
            if res["err"]:
                e, tb = res["err"]
                where = [ln.strip() for ln in tb.splitlines() if "waveform_extraction.py" in ln][-1:] or [""]
                raise Violation("C13.W1", f"raises:{type(e).__name__}", f"extract_wfs_cbin raised {type(e).__name__}: {e} (chunksize={chunk}, n_jobs={n_jobs}, ns={ns}) {where[0]}")
            try:
                outs[tag] = _load(od)
            except Exception as e:
                raise Violation("C13.W2", f"{sigbase}:files-unreadable:{type(e).__name__}", f"the saved files cannot be read back: {type(e).__name__}: {e} (chunksize={chunk}, n_jobs={n_jobs})")
            log.append([tag, chunk, n_jobs, sha1_file(od / "waveforms.traces.npy"), res["trace"][:300], res["tasks"]])
            _check_files(plan, tag, outs[tag], V, neigh, sp, valid, ns, nap, od, res, chunk, n_jobs, probe, stats, sigbase)
        if plan.get("real_joblib"):
            od = base / "out_real"
            od.mkdir()
            real = _real_joblib_extract(plan, src, od, base / "scratch")
            if real["err"]:
                raise RuntimeError(f"real joblib run failed: {real['err'][1][-1500:]}")
            rl = _load(od)
            same = np.array_equal(rl["traces"], outs["ref"]["traces"], equal_nan=True) and \
                rl["table"].drop(columns=["index"], errors="ignore").reset_index(drop=True).equals(
                    outs["ref"]["table"].drop(columns=["index"], errors="ignore").reset_index(drop=True))
            stats["probes"]["real_joblib_runs"] = 1
            stats["probes"]["real_joblib_agree_with_simulated"] = int(same)
            log.append(["real", plan["n_jobs"], int(same)])
            if not same:
                stats["fidelity_mismatch"] = "waveforms under real joblib differ from the 1-worker/simulated result"
        a, b = outs["ref"], outs["sim"]
        # W4: independent of chunk size / workers / schedule
        ta = a["table"].drop(columns=["index"], errors="ignore").reset_index(drop=True)
        tb_ = b["table"].drop(columns=["index"], errors="ignore").reset_index(drop=True)
        if not ta.equals(tb_):
            raise Violation("C13.W4", f"{sigbase}:table-differs", f"table differs between (chunksize={plan['chunk_ref']}, 1 worker) and (chunksize={plan['chunk']}, {plan['n_jobs']} workers): {len(ta)} vs {len(tb_)} rows")
        if not np.array_equal(a["traces"], b["traces"], equal_nan=True):
            bad = np.flatnonzero(~np.all(np.isclose(a["traces"], b["traces"], equal_nan=True, rtol=0, atol=0), axis=(1, 2)))
            raise Violation("C13.W4", f"{sigbase}:traces-differ", f"traces differ between (chunksize={plan['chunk_ref']}, 1 worker) and (chunksize={plan['chunk']}, {plan['n_jobs']} workers) on rows {bad[:10].tolist()}")
    except Violation as v:
        viol = {"clause": v.clause, "sig": v.sig, "detail": v.detail}
    stats["outcomes"]["violation" if viol else "held"] = 1
    xplan = dict(plan)
    if viol:
        xplan["recorded_schedule"] = next((e[4] for e in reversed(log) if e[0] == "sim"), None)
        if SCHED.delay is not None and SCHED.delay.get("site"):
            xplan["held_at"] = {"task": SCHED.delay.get("task"), "before_line": SCHED.delay["site"]}   # for the reader of the replay file
    return {"violation": viol, "stats": stats, "digest": digest(log), "plan": xplan,
            "sample": {"plan": {k: (v if k != "spikes" else v[:12]) for k, v in plan.items() if k != "trace"},
                       "n_spikes": len(plan["spikes"]), "schedule_head": next((e[4][:10] for e in reversed(log) if e[0] == "sim"), None)}}


def _do_extract_step(step, root):
    """The system's earlier process (forked child under the file-system seam)."""
    root = Path(root)
    sp = np.array(step["spikes"], dtype=np.int64).reshape(-1, 3)
    od = root / "out_interrupted"
    od.mkdir(exist_ok=True)
    wfx.extract_wfs_cbin(root / step["src"], od, sp[:, 0], sp[:, 1], sp[:, 2], max_wf=step["max_wf"],
                         chunksize_samples=step["chunk"], n_jobs=1, preprocess_steps=[], seed=step["wf_seed"],
                         scratch_dir=root / "scratch")
    return {"done": True}


def _interrupted_first(plan, src, base, probe, stats):
    from sim import fsseam
    step = {"src": os.path.relpath(src, base), "spikes": plan["spikes"], "max_wf": plan["max_wf"], "chunk": plan["chunk"],
            "wf_seed": plan["wf_seed"]}
    dr = session.dry_run(base, _do_extract_step, step, copy_root=base.parent / (base.name + ".dry"))
    elig = lambda lab: lab.startswith(("write:scratch/", "move:scratch/", "open-wb:scratch/", "close:scratch/"))  # noqa: E731
    f = session.place_fault(rng_of(plan["interrupted_first"]["rseed"]), dr["events"], elig, kinds=(plan["interrupted_first"]["kind"],))
    if f is None:
        return
    res = session.run_step(base, _do_extract_step, step, f)
    stats["steps"] += len(res["events"])
    if res["fired"]:
        stats["faults"][res["fired"]["kind"]] = stats["faults"].get(res["fired"]["kind"], 0) + 1
        probe("earlier_extraction_died_while_decompressing_to_scratch")
    import shutil
    shutil.rmtree(base / "out_interrupted", ignore_errors=True)


def _prelude(plan, base, probe, stats, sigbase):
    """History: another recording, other geometry, same channel count, extracted first in the same
    process.  Its own files are checked too."""
    nap, ns = plan["nap"], 4000
    O = world.make_data(plan["data_seed"] ^ 0x1234, ns, nap, amp=300)
    binf = world.write_recording(base / "rec_prelude", STEM, plan["prelude"], O)
    sr = spikeglx.Reader(binf)
    V = sr[:, :-sr.nsync]
    h = sr.geometry
    neigh = _neighbours(np.asarray(h["x"], dtype=float), np.asarray(h["y"], dtype=float))
    sr.close()
    r = rng_of(plan["seed"] ^ 0x99)
    sp = sorted((r.randrange(50, ns - 100), 1 + i % 2, r.choice([0, nap - 1, r.randrange(nap)])) for i in range(12))
    sp = sorted(set((t, u, c) for t, u, c in sp))
    sp = [s_ for i, s_ in enumerate(sp) if i == 0 or s_[0] != sp[i - 1][0]]
    p2 = dict(plan, spikes=[list(x) for x in sp], ns=ns, max_wf=8, fixture=plan["prelude"], reader_sort_false=False)
    od = base / ("out_sim" if plan.get("prelude_same_outdir") else "out_prelude")     # the main extraction may have to overwrite these files
    od.mkdir()
    src = binf
    if plan["form"] == "cbin":
        s2 = spikeglx.Reader(binf)
        src = s2.compress_file(keep_original=False, chunk_duration=0.1, n_threads=1)
        s2.close()
    # same worker count as the main extraction (reused workers keep their process-local state) and
    # the same scratch directory / file name as the main extractions
    nj = plan["n_jobs"]
    res = _extract(p2, src, od, 1000, nj, None if nj == 1 else {"seed": plan["sched_seed"] ^ 5, "p_switch": plan["p_switch"], "io_mode": plan.get("io_mode")}, base / "scratch")
    if res["err"]:
        e, tb = res["err"]
        raise Violation("C13.W1", f"raises:{type(e).__name__}", f"prelude extract_wfs_cbin raised {type(e).__name__}: {e}")
    spa = np.array(p2["spikes"], dtype=np.int64).reshape(-1, 3)
    valid = (spa[:, 0] > TROUGH) & (spa[:, 0] < ns - (LENGTH - TROUGH))
    _check_files(p2, "prelude", _load(od), V, neigh, spa, valid, ns, nap, od, res, 1000, nj, probe, stats, sigbase)
    probe("earlier_extraction_other_geometry_same_process")


def _load(od):
    return {
        "table": pd.read_parquet(od / "waveforms.table.pqt"),
        "traces": np.load(od / "waveforms.traces.npy"),
        "channels": np.load(od / "waveforms.channels.npz")["channels"],
        "templates": np.load(od / "waveforms.templates.npy"),
    }


def _check_files(plan, tag, out, V, neigh, sp, valid, ns, nap, od, res, chunk, n_jobs, probe, stats, sigbase):
    table = out["table"].reset_index(drop=True)
    traces, channels, templates = out["traces"], out["channels"], out["templates"]
    nwf = len(table)
    ctx = f"(chunksize={chunk}, n_jobs={n_jobs}, ns={ns}, max_wf={plan['max_wf']}, seed={plan['wf_seed']})"
    # W2: consistent lengths
    if traces.shape[0] != nwf or channels.shape[0] != nwf or traces.shape[2] != LENGTH or traces.shape[1] != neigh.shape[1]:
        raise Violation("C13.W2", f"{sigbase}:lengths", f"table {nwf} rows, traces {traces.shape}, channels {channels.shape}, neighbourhood width {neigh.shape[1]} {ctx}")
    samples = table["sample"].to_numpy().astype(np.int64)
    clusters = table["cluster"].to_numpy().astype(np.int64)
    peaks = table["peak_channel"].to_numpy().astype(np.int64)
    # rows grouped by unit, waveform_index == row position (traces/channels are addressed by row position)
    if (np.diff(clusters) < 0).any():
        raise Violation("C13.W2", f"{sigbase}:not-grouped", f"table rows are not grouped by unit {ctx}")
    if "waveform_index" in table and not np.array_equal(table["waveform_index"].to_numpy(), np.arange(nwf)):
        raise Violation("C13.W2", f"{sigbase}:waveform_index", f"waveform_index is not the row position {ctx}")
    # W1: every row equals the source window on the neighbourhood of its peak channel
    Vn = np.vstack([V.T, np.full((1, V.shape[0]), np.nan, dtype=V.dtype)])   # (nc+1, ns): NaN row for padding
    for r_ in range(nwf):
        s, pk = samples[r_], peaks[r_]
        if not (0 <= pk < nap) or not (s - TROUGH >= 0 and s - TROUGH + LENGTH <= ns):
            raise Violation("C13.W1", f"{sigbase}:row-out-of-range", f"row {r_}: sample {s}, peak {pk} {ctx}")
        exp = Vn[neigh[pk]][:, s - TROUGH: s - TROUGH + LENGTH]
        if plan.get("preprocess") == "default":
            # filter outputs: only the NaN pattern (channels outside the probe) is checked against the source
            if not np.array_equal(np.isnan(traces[r_]), np.isnan(exp)):
                raise Violation("C13.W1", f"{sigbase}:nan-pattern", f"row {r_}: NaN padding does not match the neighbourhood of peak {pk} {ctx}")
        elif not np.array_equal(traces[r_], exp.astype(np.float32), equal_nan=True):
            where = "chunk-boundary" if (s % chunk) in (0, 1, chunk - 1) else "interior"
            off = None
            for d in range(-LENGTH, LENGTH + 1):   # diagnose a time shift
                if 0 <= s - TROUGH + d and s - TROUGH + d + LENGTH <= ns and np.array_equal(
                        traces[r_], Vn[neigh[pk]][:, s - TROUGH + d: s - TROUGH + d + LENGTH].astype(np.float32), equal_nan=True):
                    off = d
                    break
            raise Violation("C13.W1", f"{sigbase}:row-differs", f"row {r_} (unit {clusters[r_]}, sample {s}, peak {pk}, {where}, chunk {s // chunk}) differs from the source window; matches the source shifted by {off} samples {ctx}")
        if not np.array_equal(channels[r_], neigh[pk]):
            raise Violation("C13.W2", f"{sigbase}:channels-row", f"channels[{r_}] != neighbourhood of peak {pk} {ctx}")
        if (s % chunk) == 0 and s >= chunk:
            probe("spike_exactly_at_chunk_start")
    # W3: per-unit counts, distinct spikes of that unit
    for u in np.unique(sp[:, 1]):
        mine = sp[(sp[:, 1] == u)]
        v = mine[(mine[:, 0] > TROUGH) & (mine[:, 0] < ns - (LENGTH - TROUGH))]
        want = min(plan["max_wf"], len(v))
        rows = np.flatnonzero(clusters == u)
        if len(rows) != want:
            first_valid_idx0 = bool(valid[0]) and sp[0, 1] == u
            raise Violation("C13.W3", f"count:{'first-spike-valid' if first_valid_idx0 else 'other'}",
                            f"unit {u} has {len(rows)} waveforms, expected min(max_wf={plan['max_wf']}, valid={len(v)}) = {want}; first spike of the recording valid and in this unit: {first_valid_idx0} {ctx}")
        got = sorted(zip(samples[rows].tolist(), peaks[rows].tolist()))
        allowed = sorted(zip(v[:, 0].tolist(), v[:, 2].tolist()))
        if len(set(got)) != len(got) or not set(got) <= set(allowed):
            raise Violation("C13.W3", f"{sigbase}:not-distinct-spikes", f"unit {u}: rows are not distinct valid spikes of the unit {ctx}")
        if want == 0:
            probe("unit_with_zero_valid_spikes")
        if len(v) > plan["max_wf"]:
            probe("unit_above_max_wf")
    # W2: templates = nan-median of each present unit's rows
    present = np.unique(clusters)
    for i, u in enumerate(present):
        rows = np.flatnonzero(clusters == u)
        with np.errstate(all="ignore"):
            import warnings
            with warnings.catch_warnings():
                warnings.simplefilter("ignore")
                med = np.nanmedian(traces[rows], axis=0)
        if i >= templates.shape[0] or not np.array_equal(templates[i], med.astype(np.float32), equal_nan=True):
            raise Violation("C13.W2", f"{sigbase}:template", f"templates[{i}] is not the NaN-median of unit {u}'s rows {ctx}")
    # W4 (history): the store history must be free of conflicts between tasks.  Two different chunk tasks storing
    # different contents into one row is a lost-update hazard: nothing orders the tasks, so some schedule ends with
    # either content (the result then depends on worker count / scheduling even if this schedule happened to end well).
    # Repeated stores by one task, or identical contents from several tasks, are harmless and not counted.
    per_row = {}
    for ent in res["mm"]:
        wt, rows, digs = ent[0], ent[1], (ent[2] if len(ent) > 2 else [None] * len(ent[1]))
        for r_, dg in zip(rows, digs):
            per_row.setdefault(r_, []).append(((wt[1] if wt else None), dg))
    for r_, lst in (sorted(per_row.items()) if n_jobs > 1 else []):      # with one worker the tasks run in submission order: no hazard
        last_by_task = {}
        for t_, dg in lst:
            last_by_task[t_] = dg
        if len(last_by_task) > 1 and len(set(last_by_task.values())) > 1:
            raise Violation("C13.W4", f"{sigbase}:conflicting-stores", f"memmap row {r_} was stored by chunk tasks {sorted(last_by_task, key=str)} with different contents (unordered tasks: the final content depends on the schedule) {ctx}")
    # W5: the loader returns what was saved (and does not raise for units / indices that exist in the request)
    try:
        wl = wfx.WaveformsLoader(od)
        w_all = wl.load_waveforms(return_info=False)
        if not np.array_equal(w_all, traces, equal_nan=True):
            raise Violation("C13.W5", f"{sigbase}:loader-all", f"load_waveforms() differs from the saved traces {ctx}")
        # what the loader hands out belongs to the caller: working on it in place (baseline subtraction ...) must not reach the saved files
        if getattr(w_all, "flags", None) is not None and w_all.flags.writeable and w_all.size:
            w_all[...] = 0
            del w_all
            again = wfx.WaveformsLoader(od).load_waveforms(return_info=False)
            if not np.array_equal(again, traces, equal_nan=True) or not np.array_equal(np.load(od / "waveforms.traces.npy"), traces, equal_nan=True):
                raise Violation("C13.W5", f"{sigbase}:loader-aliases-file", f"modifying the array returned by load_waveforms() changed the saved traces {ctx}")
            del again
        if len(present):
            lr = rng_of(plan["seed"] ^ 0xABC)
            labs = sorted(lr.sample(list(present.tolist()), lr.randrange(1, len(present) + 1)))
            idxs = sorted(lr.sample(range(plan["max_wf"]), lr.randrange(1, plan["max_wf"] + 1)))
            w, info, chans = wl.load_waveforms(labels=np.array(labs), indices=np.array(idxs))
            exp_rows = []
            for u in labs:
                rows = np.flatnonzero(clusters == u)
                exp_rows += [rows[i] for i in idxs if i < len(rows)]
            exp_rows = np.array(sorted(exp_rows), dtype=int)
            if w.shape[0] != len(exp_rows) or not np.array_equal(w, traces[exp_rows], equal_nan=True) or \
                    not np.array_equal(chans, channels[exp_rows]) or not np.array_equal(info["sample"].to_numpy().astype(np.int64), samples[exp_rows]):
                raise Violation("C13.W5", f"{sigbase}:loader-subset", f"load_waveforms(labels={labs}, indices={idxs}) returned {w.shape[0]} rows, expected rows {exp_rows.tolist()[:12]} {ctx}")
            # argument forms: labels as an unsorted python list, indices as a scalar
            labs2 = list(reversed(labs))
            i0 = idxs[0]
            w2, info2, ch2 = wl.load_waveforms(labels=labs2, indices=i0)
            exp2 = np.array(sorted(np.flatnonzero(clusters == u)[i0] for u in labs if i0 < int(np.sum(clusters == u))), dtype=int)
            if w2.shape[0] != len(exp2) or not np.array_equal(w2, traces[exp2], equal_nan=True) or not np.array_equal(ch2, channels[exp2]):
                raise Violation("C13.W5", f"{sigbase}:loader-args", f"load_waveforms(labels={labs2} (list), indices={i0} (scalar)) returned {w2.shape[0]} rows, expected rows {exp2.tolist()[:12]} {ctx}")
            w3 = wl.load_waveforms(labels=np.array(labs), return_info=False)
            exp3 = np.flatnonzero(np.isin(clusters, labs))
            if not np.array_equal(w3, traces[exp3], equal_nan=True):
                raise Violation("C13.W5", f"{sigbase}:loader-labels-only", f"load_waveforms(labels={labs}) does not return exactly those units' rows {ctx}")
    except Violation:
        raise
    except Exception as e:
        import traceback
        where = [ln.strip() for ln in traceback.format_exc().splitlines() if "waveform_extraction.py" in ln][-1:] or [""]
        raise Violation("C13.W5", f"{sigbase}:loader-raises:{type(e).__name__}", f"WaveformsLoader raised {type(e).__name__}: {e} {where[0]} {ctx}")
    wl = None
    # reach
    if tag == "sim" and n_jobs > 1:
        nonempty = len(res["mm"])
        if nonempty >= 2:
            order = [t for ent in res["mm"] for t in [ent[0][1] if ent[0] else None]]
            cclass = "s" if chunk < 1000 else "m" if chunk < 4000 else "l"
            stats["distinct"].append(f"{digest(order)}|{n_jobs}|{cclass}")
            if order and order[0] == max(order):
                probe("last_chunk_completes_first")
            if order != sorted(order):
                probe("chunks_complete_out_of_order")
        ntasks = len(res["tasks"])
        if ntasks - nonempty > 0:
            probe("empty_chunks", ntasks - nonempty)


def shrink_candidates(plan):
    for key, val in (("env", None), ("symlink", False), ("backend", "loky"), ("reader_sort_false", False), ("form", "bin"), ("delay", None), ("io_mode", False), ("preprocess", "none"), ("order", None), ("victim", None), ("p_switch", 0.0), ("prelude", None), ("interrupted_first", None)):
        if plan.get(key) != val:
            c = dict(plan)
            c[key] = val
            c["trace"] = None
            yield c
    if plan["n_jobs"] > 1:
        for n in (1, 2):
            if n < plan["n_jobs"]:
                c = dict(plan)
                c["n_jobs"] = n
                c["victim"] = None
                c["trace"] = None
                yield c
    sp = plan["spikes"]
    if len(sp) > 2:
        for part in (sp[: len(sp) // 2], sp[len(sp) // 2:], sp[1:], sp[:-1]):
            c = dict(plan)
            c["spikes"] = part
            c["trace"] = None
            yield c
    units = sorted({s[1] for s in sp})
    if len(units) > 1:
        for u in units:
            c = dict(plan)
            c["spikes"] = [s for s in sp if s[1] != u]
            c["trace"] = None
            yield c
    if plan["chunk"] != plan["chunk_ref"]:
        c = dict(plan)
        c["chunk"] = plan["chunk_ref"]
        c["trace"] = None
        yield c
