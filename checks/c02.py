"""C02 — compression is transparent, lossless and atomically published.

System (real): spikeglx.Reader (open/read/compress_file/decompress_file/decompress_to_scratch,
companion lookup), mtscomp Writer/Reader, zlib, real files.  Each operation runs in its own
forked process under the file-system seam; faults (io_error / kill / torn write) are placed at
events of a dry run: every compression chunk write, the publish rename/move, the unlinks.
Oracle: model {bin, cbin, scratch} + independent cbin decoder + a pristine reference copy.
"""
import os
import shutil
from pathlib import Path

import numpy as np

from sim.common import rng_of, digest, new_scratch, rm_scratch, setup_imports, sha1_file, snapshot
from sim import world, session
from sim.codec import cbin_is
from sim.fsseam import label_class

setup_imports()
import spikeglx  # noqa: E402
import mtscomp  # noqa: E402

PROP = "C02"
LEVEL = "fault_enumeration"
TIERS = {
    "quick": {"runs": 1500, "budget_s": 420, "det_pairs": 3},
    "thorough": {"runs": 200000, "budget_s": 1500, "det_pairs": 8},
}
SIM_TIME_NOTE = ("virtual clock (time.time / time.sleep of the system's process are simulated): simulated_time_s is the time the system spent "
                 "waiting; the unchanged tree never sleeps, so it is 0 unless a changed tree retries or backs off")
RUN_TIMEOUT = 600
SHRINK_BUDGET = 80
RULE = (
    "one run = one seeded history of 1-6 operations (compress / decompress / decompress-to-scratch / in-place cycle, "
    "keep_original in {T,F}, 1-12 compression chunks with a short last chunk, cache 1-10, thread-pool order seeded) on a seeded "
    "recording, each operation in its own process; up to two operations carry a fault (io_error incl. persistent, kill, torn write, "
    "interrupt = KeyboardInterrupt) placed on an event of that operation's dry run, label class chosen uniformly (chunk writes, reads of "
    "compressed chunks, rename/move, unlinks, mkdir/copy); "
    "after every operation the durable state is compared with the model, every present entry path is opened and read with "
    "selectors at chunk boundaries and compared with the uncompressed original. distinct_nontrivial counts distinct "
    "(operation, keep_original, fault kind, fault site class, model state before) tuples among operations whose fault fired, "
    "plus distinct (chunks, cache, selector class) cross-form read classes."
)
COMPONENTS = {
    "real": ["spikeglx.Reader.__init__/open/read/compress_file/decompress_file/decompress_to_scratch/_get_companion_file",
             "mtscomp.Writer/Reader/compress/decompress/check", "zlib", "real files in /dev/shm"],
    "stub": ["mtscomp thread pool (inline, seeded completion order)", "tqdm", "mtscomp config path",
             "time module seen by the system (virtual clock: time()/sleep() simulated)", "os.pread in mtscomp (proxy that makes chunk reads events)"],
}
ASSUMPTIONS = [
    "process-level failure model: bytes handed to the kernel survive, user-space buffers and later steps do not; no power-loss (fsync) semantics",
    "atomicity is demanded for compress_file and decompress_to_scratch only (as the statement names them); a failed plain decompress may leave a partial .bin as long as the .cbin is intact",
    "the .ch header is not 'the final name': a dangling/orphan .ch is not counted",
    "fault sites are Python-level file operations (open/write/tofile/close/read of compressed chunks/rename/move/copy/unlink/mkdir); stores through np.memmap and reads of the uncompressed source through np.memmap are not events",
]

STEM = "rec_g0_t0.imec0"
UUID = ".3c3d1ca8-6e11-4a1c-9a0e-4c0f7f3e2f11"     # file names on the archive carry a UUID before the extension


# ---------------------------------------------------------------------------------------------
# the system's operations (run in the child)

def do_step(step, root):
    root = Path(root)
    U = step.get("_u", "")
    stem = step.get("_stem") or STEM
    if step.get("_rel"):
        os.chdir(root)          # the caller works from inside the recording's folder with relative paths
        root = Path(".")
    binf = root / f"{stem}.ap{U}.bin"
    cbin = root / f"{stem}.ap{U}.cbin"
    if step.get("_str"):
        binf, cbin = str(binf), str(cbin)       # callers hand plain strings as often as Path objects
    op = step["op"]
    ckw = {}
    if step.get("via") == "kwargs":
        ckw = {"chunk_duration": step["chunk_duration"], "n_threads": step["n_threads"],
               "check_after_compress": step["check_after"]}
        for kk in ("do_spatial_diff", "comp_level"):
            if step.get(kk) is not None:
                ckw[kk] = step[kk]
    if op == "compress":
        sr = spikeglx.Reader(binf)
        out = sr.compress_file(keep_original=step["keep_original"], **ckw)
        shape_after = tuple(int(x) for x in sr.shape)          # same object, not re-opened
        sr.close()
        return {"out": os.path.relpath(out, root), "shape_after": shape_after}
    if op == "decompress":
        sr = spikeglx.Reader(cbin)
        kw = {"overwrite": True} if step.get("overwrite") else {}
        out = sr.decompress_file(keep_original=step["keep_original"], **kw)
        sr.close()
        return {"out": os.path.relpath(out, root)}
    if op == "to_scratch":
        sr = spikeglx.Reader(cbin)
        sd = root / step["scratch_dir"] if step.get("scratch_dir") else None
        out = sr.decompress_to_scratch(scratch_dir=sd)
        sr.close()
        return {"out": os.path.relpath(out, root)}
    if op == "inplace_cycle":
        # ONE Reader object carried through decompress-in-place -> open -> read -> compress-in-place ->
        # open -> read, `cycles` times
        sr = spikeglx.Reader(cbin, sort=False) if step.get("unsorted") else spikeglx.Reader(cbin)      # reader options travel with the carried object
        kw = {"overwrite": True} if step.get("overwrite") else {}
        shapes = [tuple(int(x) for x in sr.shape)]
        same = True
        first = None
        for _ in range(int(step.get("cycles", 1))):
            sr.decompress_file(keep_original=False, **kw)
            sr.open()        # reading through the carried object without re-opening is not demanded
            shapes.append(tuple(int(x) for x in sr.shape))
            a = np.array(sr[: min(50, sr.ns), :])
            sr.close()
            sr.compress_file(keep_original=False, **ckw)
            shapes.append(tuple(int(x) for x in sr.shape))      # the carried object, not re-opened yet
            sr.open()
            shapes.append(tuple(int(x) for x in sr.shape))
            b = np.array(sr[: min(50, sr.ns), :])
            sr.close()
            first = a if first is None else first
            same = same and bool(np.array_equal(a, b)) and bool(np.array_equal(a, first))
            kw = {}
        return {"same": same, "is_mtscomp": bool(sr.is_mtscomp), "shapes": shapes}
    raise ValueError(op)


def eligible(label):
    """Fault sites of C02: every event of the operation.  (Until the repair of finding 1b the *writing* of the .ch header
    was left out: a failure there could leave a published .cbin next to a rewritten header, which is what that finding was.)"""
    return True


# ---------------------------------------------------------------------------------------------

def gen_plan(seed, tier="quick"):
    return {"property": PROP, "seed": seed, "auto": True, "tier": tier}


class Violation(Exception):
    def __init__(self, clause, sig, detail):
        self.clause, self.sig, self.detail = clause, sig, detail


def _gen_world(r, tier):
    fixture = r.choice(["NP24", "NP21", "NP1", "NP1", "NP24_int"])
    nap = r.choice([1, 2, 4, 8, 16, 16, 32, 47, 96]) if r.random() < 0.93 else 384
    ns = r.choice([1000, 1500, 3000, 4097, 8000, r.randrange(1000, 12000), r.randrange(1000, 40000)])
    if nap == 384:
        ns = min(ns, 4000)
    # metadata without fileSizeBytes/fileTimeSecs (what a running/interrupted acquisition leaves) is a legal input
    meta_form = "none" if r.random() < 0.12 else "complete"
    # archive layout: our files carry a UUID, and a sibling recording without UUID (other length, other
    # content) with the same stem sits in the same folder: companion lookup must not pick the sibling's files
    uuid_layout = r.random() < 0.15
    return {"fixture": fixture, "nap": nap, "ns": ns, "data_seed": r.randrange(1 << 30), "meta_form": meta_form,
            "uuid_layout": uuid_layout, "extremes": r.random() < 0.3,
            # file-name patterns: a space, an extra dot, upper case in the stem; the caller may work with relative paths from inside the folder
            "stem": r.choice([None] * 6 + ["my rec_g0_t0.imec0", "rec.v2_g0_t0.imec0", "REC-01_g0_t0.imec0"]),
            "relative_paths": r.random() < 0.15,
            # annex / object-store layout: the data file is a symbolic link into a store, its .meta a regular file beside the link
            "symlink_store": r.random() < 0.12, "str_paths": r.random() < 0.3}


def _gen_knobs(r):
    return {"cache_size": r.choice([1, 1, 2, 3, 10]), "n_threads": r.choice([1, 2, 3, 8])}


def _chunking(r, ns, fs):
    k = r.choice([1, 2, 3, 3, 5, 7, 12])
    cs = max(1, -(-ns // k) + r.choice([0, 0, 1, 7, -1 if ns // k > 2 else 0]))
    if r.random() < 0.1:
        cs = max(50, ns // 40)   # LF-like many tiny chunks
    cs = max(1, cs)
    cd = cs / fs
    if int(np.round(cd * fs)) != cs:
        cd = (cs + 0.01) / fs
    return cs, cd


def _next_step(r, model, fs, ns, nfaults):
    """Draw the next operation respecting the model's preconditions (documented uses only)."""
    ops = []
    if model["bin"] == "complete" and model["cbin"] == "absent":
        ops += ["compress"] * 4
    if model["cbin"] == "complete":
        ops += ["decompress"] * 2 + ["to_scratch"] * 2 + ["inplace_cycle"]
    if model["bin"] == "complete" and model["cbin"] == "complete" and model.get("chunk_duration"):
        ops += ["recompress"] * 2 + ["replace_compress"]
    if not ops:
        return None
    op = r.choice(ops)
    st = {"op": op}
    if op in ("compress", "inplace_cycle"):
        cs, cd = _chunking(r, ns, fs)
        st.update({"chunk_samples": cs, "chunk_duration": cd, "n_threads": r.choice([1, 2, 4]),
                   "check_after": r.random() < 0.7, "via": r.choice(["kwargs", "kwargs", "config"])})
        if st["via"] == "kwargs" and r.random() < 0.3:
            st["do_spatial_diff"] = True
        if st["via"] == "kwargs" and r.random() < 0.3:
            st["comp_level"] = r.choice([1, 9])
        if r.random() < 0.12:
            st.update({"via": "default", "chunk_samples": int(round(fs)), "chunk_duration": 1.0})      # no parameters at all: the dependency's defaults (1 s chunks)
            st.pop("do_spatial_diff", None)
            st.pop("comp_level", None)
    if op == "recompress":
        # compress again over an existing complete pair: with the parameters that pair was made with, or with others
        # (another chunking / codec setting: the header that is rewritten then differs from the published one)
        if r.random() < 0.5:
            st = {"op": "compress", "recompress": True, "chunk_samples": model["chunk_samples"],
                  "chunk_duration": model["chunk_duration"], "n_threads": r.choice([1, 2, 4]),
                  "check_after": r.random() < 0.7, "via": r.choice(["kwargs", "config"])}
            if model.get("codec"):
                st.update(model["codec"])
                st["via"] = "kwargs"
        else:
            cs, cd = _chunking(r, ns, fs)
            st = {"op": "compress", "recompress": True, "chunk_samples": cs, "chunk_duration": cd, "n_threads": r.choice([1, 2, 4]),
                  "check_after": r.random() < 0.7, "via": "kwargs"}
            if r.random() < 0.3:
                st["do_spatial_diff"] = True
        op = "compress"
    if op == "replace_compress":
        # history: the operator replaces the .bin by another recording of the same shape (re-copied, re-exported) while the
        # old .cbin/.ch pair is still there, then compresses again: the published .cbin must hold the NEW content
        cs, cd = _chunking(r, ns, fs)
        st = {"op": "compress", "replace_content": r.randrange(1 << 30), "chunk_samples": cs, "chunk_duration": cd,
              "n_threads": r.choice([1, 2, 4]), "check_after": r.random() < 0.7, "via": "kwargs"}
        if r.random() < 0.5:
            # ... of another length (re-exported, cut, extended), its metadata with it
            st["new_ns"] = max(1000, min(40000, r.choice([ns // 2, ns - 1, ns + 1, ns + ns // 3, 2 * ns, r.randrange(1000, 40000)])))
            cs, cd = _chunking(r, st["new_ns"], fs)
            st.update({"chunk_samples": cs, "chunk_duration": cd})
        if r.random() < 0.4:
            st.update({"via": "default", "chunk_samples": int(round(fs)), "chunk_duration": 1.0})      # no parameters: the dependency's defaults (1 s chunks)
        op = "compress"
    if op == "compress":
        st["keep_original"] = r.random() < 0.5
    if op == "decompress":
        st["keep_original"] = r.random() < 0.5
    if op in ("decompress", "inplace_cycle"):
        st["overwrite"] = model["bin"] != "absent"
    if op == "inplace_cycle":
        st["cycles"] = r.choice([1, 1, 2])
        st["unsorted"] = r.random() < 0.4
    if op == "decompress" and model["bin"] != "absent" and r.random() < 0.5:
        # the naive retry: same call again although a (possibly partial) .bin is in the way; the
        # documented behaviour is a refusal (ValueError from the dependency) that changes nothing
        st["overwrite"] = False
        st["expect_refusal"] = True
    if op == "to_scratch":
        # next to the cbin only when there is no (possibly tainted) .bin there already
        if model["bin"] == "tainted":
            st["scratch_dir"] = "scratch"
        else:
            st["scratch_dir"] = r.choice(["scratch", "scratch", None, "deep/er/scratch"])
    want_fault = nfaults < 2 and r.random() < 0.75
    st["fault"] = {"auto": True, "rseed": r.randrange(1 << 30)} if want_fault else None
    return st


def _precond(st, model):
    op = st["op"]
    if op == "compress":
        if st.get("replace_content") is not None:
            return model["bin"] == "complete" and model["cbin"] == "complete"
        if st.get("recompress"):
            return model["bin"] == "complete" and model["cbin"] == "complete"
        return model["bin"] == "complete" and (model["cbin"] == "absent" or st.get("retry"))
    if op == "decompress":
        return model["cbin"] == "complete" and (model["bin"] == "absent" or st.get("overwrite") or st.get("expect_refusal"))
    if op == "to_scratch":
        return model["cbin"] == "complete" and not (st.get("scratch_dir") is None and model["bin"] == "tainted")
    if op == "inplace_cycle":
        return model["cbin"] == "complete" and (model["bin"] == "absent" or st.get("overwrite"))
    return False


# ---------------------------------------------------------------------------------------------

class World:
    def __init__(self, base, w, knobs):
        self.base = base
        self.root = base / "w"
        self.root.mkdir()
        self.oracle = base / "oracle"
        self.cfg = base / "mtscomp.json"
        self.w = w
        self.nc = w["nap"] + 1
        self.fs = world.meta_fs(w["fixture"])
        self.ns = w["ns"]           # current length (the operator may replace the recording by one of another length)
        self.O = world.make_data(w["data_seed"], w["ns"], w["nap"], extremes=bool(w.get("extremes")))
        self.Obytes = self.O.tobytes()
        sf = "none" if w.get("meta_form") == "none" else "complete"
        self.U = UUID if w.get("uuid_layout") else ""
        self.stem = w.get("stem") or STEM          # file-name pattern of the recording (the oracle's pristine copy keeps the plain one)
        world.write_recording(self.root, self.stem, w["fixture"], self.O, size_fields=sf)
        world.write_recording(self.oracle, STEM, w["fixture"], self.O, size_fields=sf)
        if self.U:
            for ext in ("bin", "meta"):
                (self.root / f"{self.stem}.ap.{ext}").rename(self.root / f"{self.stem}.ap{self.U}.{ext}")
            # the sibling: shorter recording, complete .bin/.meta/.cbin/.ch set under the UUID-less names
            D = world.make_data(w["data_seed"] ^ 0x5151, max(200, w["ns"] // 3), w["nap"])
            world.write_recording(self.root, self.stem, w["fixture"], D)
            sd = spikeglx.Reader(self.root / f"{self.stem}.ap.bin")
            sd.compress_file(keep_original=True, chunk_duration=0.05, n_threads=1)
            sd.close()
        self.bin = self.root / f"{self.stem}.ap{self.U}.bin"
        self.store_files = set()
        if w.get("symlink_store"):
            store = self.root / "store" / "a1"
            store.mkdir(parents=True)
            obj = store / "SHA256E-s0--9f2c41.bin"
            self.bin.rename(obj)
            os.symlink(os.path.relpath(obj, self.root), self.bin)
            self.store_files.add(obj)
        self.cbin = self.root / f"{self.stem}.ap{self.U}.cbin"
        self.ch = self.root / f"{self.stem}.ap{self.U}.ch"
        self.meta = self.root / f"{self.stem}.ap{self.U}.meta"
        self.decoys = {p: sha1_file(p) for p in (self.root / f"{self.stem}.ap.{e}" for e in ("bin", "meta", "cbin", "ch"))} if self.U else {}
        self.meta_sha = sha1_file(self.meta)
        self.default_mode = self.meta.stat().st_mode & 0o777        # what a file created the ordinary way gets here
        self.knobs = dict(knobs)

    def replace_content(self, data_seed, new_ns=None):
        """The operator puts another recording of the same shape under the same name (the oracle's pristine copy follows).
        Half of the time the replacement keeps an OLD modification time, as `mv`, `cp -p`, `rsync -t` or a restore from
        backup do: a file's age says nothing about its content."""
        if new_ns:
            self.ns = int(new_ns)
        self.O = world.make_data(data_seed, self.ns, self.w["nap"], extremes=bool(self.w.get("extremes")))
        self.Obytes = self.O.tobytes()
        old = self.bin.stat()
        self.bin.write_bytes(self.Obytes)
        if new_ns:
            # another length: its metadata comes with it (same form as before)
            sf = "none" if self.w.get("meta_form") == "none" else "complete"
            txt = world.make_meta_text(self.w["fixture"], self.w["nap"], self.ns, size_fields=sf)
            self.meta.write_text(txt)
            (self.oracle / f"{STEM}.ap.meta").write_text(txt)
            self.meta_sha = sha1_file(self.meta)
        if data_seed % 2 == 0:
            os.utime(self.bin, ns=(old.st_atime_ns, old.st_mtime_ns - 10_000_000_000))
        (self.oracle / f"{STEM}.ap.bin").write_bytes(self.Obytes)
        # scratch copies of the old content belong to the old recording: the operator clears them
        for p in list(self.root.rglob("*.bin")):
            if p != self.bin and p not in self.decoys and p not in self.store_files:
                p.unlink()
                if p.with_suffix(".meta").exists():
                    p.with_suffix(".meta").unlink()

    def set_config(self, extra=None):
        k = dict(self.knobs)
        if extra:
            k.update(extra)
        session.write_config(self.cfg, k)

    def observe(self):
        def st_bin(p):
            if not p.exists():
                return "absent"
            return "complete" if p.read_bytes() == self.Obytes else "other"
        o = {"bin": st_bin(self.bin)}
        if not self.cbin.exists():
            o["cbin"] = "absent"
        else:
            o["cbin"] = "complete" if cbin_is(self.cbin, self.O, self.ch) else "other"
        o["scratch"] = {}
        for p in sorted(self.root.rglob("*.bin")):
            if p != self.bin and p not in self.decoys and p not in self.store_files:
                o["scratch"][os.path.relpath(p, self.root)] = st_bin(p)
        o["decoys_ok"] = all(p.exists() and sha1_file(p) == h for p, h in self.decoys.items())
        o["tmp"] = sorted(os.path.relpath(p, self.root) for p in self.root.rglob("*") if p.name.endswith(("_tmp", "_temp")))
        return o


def run_plan(plan):
    base = new_scratch("c02")
    try:
        return _run(plan, base)
    finally:
        rm_scratch(base)


def _run(plan, base):
    auto = bool(plan.get("auto"))
    r = rng_of(plan["seed"])
    tier = plan.get("tier", "quick")
    if auto:
        w = _gen_world(r, tier)
        knobs = _gen_knobs(r)
        nsteps = r.choice([1, 2, 2, 3, 3, 4, 6] + ([8, 10] if tier == "thorough" else []))      # deeper histories in the thorough tier
        sel_seed = r.randrange(1 << 30)
        steps_in = None
    else:
        w, knobs, sel_seed = plan["world"], plan["knobs"], plan["sel_seed"]
        steps_in = plan["steps"]
        nsteps = len(steps_in)
    session.pin_dependencies(base / "mtscomp.json", pool_seed=plan["seed"] % 1000)
    W = World(base, w, knobs)
    W.set_config()
    rsel = rng_of(sel_seed)
    model = {"bin": "complete", "cbin": "absent", "chunk_samples": None, "chunk_duration": None}
    log = []
    executed = []
    stats = {"faults": {}, "sites": {}, "probes": {}, "outcomes": {}, "distinct": [], "steps": 0}
    nfaults = 0
    viol = None

    def bump(group, key):
        stats[group][key] = stats[group].get(key, 0) + 1

    try:
        i = 0
        while i < nsteps:
            if auto:
                st = _next_step(r, model, W.fs, W.ns, nfaults if tier != "thorough" else nfaults - 1)     # thorough: up to three faults per history
                if st is None:
                    break
            else:
                st = dict(steps_in[i])
            i += 1
            executed.append(st)
            if not _precond(st, model):
                log.append(["skip", st["op"]])
                continue
            fired = _exec_step(W, st, model, log, stats, bump, plan["seed"])
            if fired:
                nfaults += 1
                # bounded liveness: once faults stop, repeating the operation once succeeds
                rt = {k: v for k, v in st.items() if k != "fault"}
                rt["fault"] = None
                rt["retry"] = True
                if rt["op"] == "decompress" and model["bin"] != "absent" and model["cbin"] == "complete":
                    # first the naive retry (same call, the partial .bin in the way): documented to refuse
                    nv = dict(rt, overwrite=False, expect_refusal=True)
                    _exec_step(W, nv, model, log, stats, bump, plan["seed"], progress=True)
                if rt["op"] in ("decompress", "inplace_cycle"):
                    rt["overwrite"] = model["bin"] != "absent"
                if _precond(rt, model):
                    _exec_step(W, rt, model, log, stats, bump, plan["seed"], progress=True)
                    bump("probes", "retry_after_fault")
            _read_checks(W, model, rsel, log, stats, bump)
    except Violation as v:
        viol = {"clause": v.clause, "sig": v.sig, "detail": v.detail}
    xplan = {"property": PROP, "seed": plan["seed"], "world": w, "knobs": knobs, "sel_seed": sel_seed,
             "steps": executed}
    stats["outcomes"]["violation" if viol else "held"] = 1
    step_events = stats.pop("_step_events", [])
    if plan.get("sweep_of") is not None:
        xplan["sweep_of"] = plan["sweep_of"]
        stats["probes"]["fault_sweep_plans"] = 1
    out = {"violation": viol, "stats": stats, "digest": digest(log), "plan": xplan,
           "sample": {"world": w, "knobs": knobs, "history": log[:12]}}
    if plan.get("want_events"):
        out["step_events"] = step_events
    return out


def _exec_step(W, st, model, log, stats, bump, seed, progress=False):
    """Runs one operation in its own process; checks the A-clauses on the durable state;
    updates the model by observation.  Returns True when a fault fired."""
    if st.get("via") == "config":
        W.set_config({"chunk_duration": st["chunk_duration"], "n_threads": st["n_threads"],
                      "check_after_compress": st["check_after"]})
    else:
        W.set_config()
    if st.get("replace_content") is not None:
        W.replace_content(st["replace_content"], st.get("new_ns"))
        bump("probes", "source_replaced_then_compressed_again")
    fault = st.get("fault")
    pool_seed = seed % 1000
    st["_u"] = W.U
    st["_stem"] = W.stem
    st["_rel"] = bool(W.w.get("relative_paths"))
    st["_str"] = bool(W.w.get("str_paths"))
    if fault and fault.get("auto"):
        dr = session.dry_run(W.root, do_step, st, W.cfg, pool_seed, read_events=True)
        fr = rng_of(fault["rseed"])
        fault = session.place_fault(fr, dr["events"], eligible, kinds=("kill", "kill", "io_error", "io_error", "torn", "torn", "interrupt", "short"))
        st["fault"] = fault
    before = W.observe()
    src_sha = {p.name: sha1_file(p) for p in (W.bin, W.cbin, W.ch) if p.exists()}
    res = session.run_step(W.root, do_step, st, fault, W.cfg, pool_seed, read_events=True)
    stats["steps"] += len(res["events"])
    stats["sim_time"] = stats.get("sim_time", 0.0) + float(res.get("clock") or 0.0)      # simulated seconds the system spent sleeping / waiting
    if not progress:
        stats.setdefault("_step_events", []).append(res["events"])
    fired = res["fired"] if res["fired"] and res["fired"]["kind"] in ("kill", "torn", "io_error", "interrupt", "short") else None
    out = res["outcome"]
    # whether the operation failed is what the operation itself says (it raised, or its process died); a fault that fired
    # but was absorbed (a retry that succeeded, a handler that swallowed it) leaves an operation that REPORTS SUCCESS and
    # must therefore meet every post-condition of a successful one
    failed = (out is not None and "exc" in out) or out is None
    if fired is not None and not failed:
        bump("probes", "fault_absorbed_operation_reported_success")
    after = W.observe()
    op = st["op"]
    keep = st.get("keep_original", op != "inplace_cycle")
    entry = [op, int(bool(keep)), st.get("scratch_dir"), fired["kind"] if fired else None,
             label_class(fired["label"]) if fired else None,
             ("ok" if out and "ok" in out else (out or {}).get("exc", "killed")), after["bin"], after["cbin"],
             sorted(after["scratch"].items()), after["tmp"]]
    log.append(entry)
    sig0 = f"{op}:{'keep' if keep else 'inplace'}"
    ctx = f"step={ {k: v for k, v in st.items() if k != 'fault'} } fault={fired} outcome={out} before={before} after={after}"
    if fired:
        bump("faults", fired["kind"])
        bump("sites", label_class(fired["label"]))
        stats["distinct"].append(f"{op}|{int(bool(keep))}|{fired['kind']}|{label_class(fired['label'])}|{model['bin']},{model['cbin']}")
        lc = label_class(fired["label"])
        if fired["kind"] == "torn":
            bump("probes", "torn_write_in_chunk")
        if fired["kind"] == "short":
            bump("probes", "short_transfer_then_error")
        if fired["kind"] == "kill" and lc.startswith("unlink"):
            bump("probes", "kill_between_publish_and_unlink")
        if fired["kind"] == "kill" and (lc.startswith("rename") or lc.startswith("move")):
            bump("probes", "kill_before_publish")
    # ---- clauses on the durable state (every post-state, faulted or not)
    if not after.get("decoys_ok", True):
        raise Violation("C02.R", f"{sig0}:sibling-touched", "files of the sibling recording (same stem, no UUID) were changed or removed | " + ctx)
    if W.U:
        bump("probes", "uuid_named_files_with_sibling_recording")
    if W.store_files:
        bump("probes", "data_file_is_a_symlink_into_a_store")
    if not W.meta.exists():
        raise Violation("C02.A2", f"{sig0}:meta-removed", "the recording's metadata file was removed | " + ctx)
    if sha1_file(W.meta) != W.meta_sha:
        raise Violation("C02.A2", f"{sig0}:meta-changed", "metadata file changed | " + ctx)
    if after["cbin"] == "other" and st.get("replace_content") is not None and not failed:
        raise Violation("C02.L", f"{sig0}:stale-cbin-after-recompression", "the .bin was replaced by another recording of the same shape and compressed again; the published .cbin does not hold the new content | " + ctx)
    if after["cbin"] == "other" and before["cbin"] == "other" and failed and W.cbin.exists() and sha1_file(W.cbin) == src_sha.get(W.cbin.name) \
            and W.ch.exists() and sha1_file(W.ch) == src_sha.get(W.ch.name):
        pass        # the stale pair of the recording that was there before the operator replaced it: untouched by the failed call
    elif after["cbin"] == "other":
        # tolerated only while an in-place decompression is removing its source (the .cbin and its
        # .ch go one after the other) and the replacement .bin is already complete
        removing_source = op == "decompress" and not keep and after["bin"] == "complete" and before["cbin"] == "complete"
        if not removing_source:
            raise Violation("C02.A2", f"{sig0}:cbin-incomplete", "a file named .cbin exists but does not decode to the whole original | " + ctx)
    for pth, s in after["scratch"].items():
        if s == "other":
            raise Violation("C02.A2", f"{sig0}:scratch-incomplete", f"scratch {pth} exists but is not the complete original | " + ctx)
    if after["bin"] == "other":
        legit = before["bin"] == "other" or (op in ("decompress", "inplace_cycle") and failed)
        if not legit:
            clause = "C02.A2" if op in ("compress", "to_scratch") else "C02.L"
            raise Violation(clause, f"{sig0}:bin-corrupt", "the .bin no longer equals the original | " + ctx)
    if st.get("recompress"):
        bump("probes", "recompress_over_existing_pair")
    if after["bin"] != "complete" and after["cbin"] != "complete":
        inplace = not keep
        raise Violation("C02.A1" if inplace else "C02.A3", f"{sig0}:no-complete-copy",
                        "no complete representation of the recording is left | " + ctx)
    if failed and op == "compress":
        # source untouched after a failed compression (unless it was legitimately consumed: in-place, cbin complete)
        if W.bin.exists() and sha1_file(W.bin) != src_sha.get(W.bin.name):
            raise Violation("C02.A2", f"{sig0}:source-touched", "source .bin changed by a failed compression | " + ctx)
        if not W.bin.exists() and after["cbin"] != "complete":
            raise Violation("C02.A1", f"{sig0}:source-removed-early", "source removed before the .cbin was complete | " + ctx)
    if op == "to_scratch":
        for p in (W.cbin, W.ch):
            if not p.exists() or sha1_file(p) != src_sha.get(p.name):
                raise Violation("C02.A2", f"{sig0}:source-touched", f"{p.name} changed/removed by decompress_to_scratch | " + ctx)
    if not failed:
        # fault-free (or fault swallowed): exact expected post-state
        exp = None
        if op == "compress":
            exp = ("complete" if keep else "absent", "complete")
        elif op == "decompress":
            exp = ("complete", "complete" if keep else "absent")
        elif op == "inplace_cycle":
            exp = ("absent", "complete")
        if exp and (after["bin"], after["cbin"]) != exp:
            raise Violation("C02.L", f"{sig0}:post-state", f"expected (bin,cbin)={exp} | " + ctx)
        if op == "compress" and W.cbin.exists() and (W.default_mode & 0o444) & ~(W.cbin.stat().st_mode & 0o777):
            raise Violation("C02.R", f"{sig0}:published-unreadable", f"the published .cbin has mode {oct(W.cbin.stat().st_mode & 0o777)}, files created the ordinary way here have {oct(W.default_mode)}: "
                            f"users who can read the recording's other files cannot open the compressed one | " + ctx)
        if op == "decompress" and not keep and W.ch.exists():
            raise Violation("C02.L", f"{sig0}:ch-left", ".ch left after in-place decompression | " + ctx)
        if op == "to_scratch":
            outp = W.root / out["ok"]["out"]
            rel = os.path.relpath(outp, W.root)
            state = after["bin"] if outp == W.bin else after["scratch"].get(rel)
            if state != "complete":
                raise Violation("C02.L", f"{sig0}:scratch-result", f"decompress_to_scratch returned {rel} which is {state} | " + ctx)
            if st.get("scratch_dir") and not outp.with_suffix(".meta").exists():
                raise Violation("C02.R", f"{sig0}:scratch-meta", "no metadata copied next to the scratch file | " + ctx)
            if st.get("scratch_dir") and sha1_file(outp.with_suffix(".meta")) != W.meta_sha:
                raise Violation("C02.R", f"{sig0}:scratch-meta-content", "the metadata next to the scratch file is not a copy of the recording's metadata | " + ctx)
            if st.get("scratch_dir"):
                # the scratch copy is what the caller goes on to read: it must open as the same recording
                try:
                    ss = spikeglx.Reader(outp)
                    ok_ = tuple(ss.shape) == (W.ns, W.nc) and np.array_equal(ss[0:5, :], spikeglx.Reader(W.oracle / f"{STEM}.ap.bin")[0:5, :])
                    ss.close()
                except Exception as e:
                    raise Violation("C02.R", f"{sig0}:scratch-open:{type(e).__name__}", f"the scratch copy does not open: {e!r} | " + ctx)
                if not ok_:
                    raise Violation("C02.R", f"{sig0}:scratch-open-differs", "the scratch copy opens as a different recording | " + ctx)
        if op == "inplace_cycle" and not (out["ok"]["same"] and out["ok"]["is_mtscomp"]):
            raise Violation("C02.T", f"{sig0}:cycle-read", "reads through the carried Reader differ across the in-place cycle | " + ctx)
        want_shape = [W.ns, W.nc]
        if op == "inplace_cycle" and any(list(sh) != want_shape for sh in out["ok"]["shapes"]):
            raise Violation("C02.T", f"{sig0}:cycle-shape", f"shape through the carried Reader changed across the in-place cycle: {out['ok']['shapes']} (recording is {want_shape}) | " + ctx)
        if op == "compress" and list(out["ok"].get("shape_after", want_shape)) != want_shape:
            raise Violation("C02.T", f"{sig0}:shape-after-compress", f"shape reported by the Reader that compressed the file: {out['ok']['shape_after']} (recording is {want_shape}) | " + ctx)
    elif fired is None and st.get("expect_refusal") and out is not None and "exc" in out:
        # refused, as documented: then nothing may have changed
        bump("probes", "naive_retry_refused")
        if (after["bin"], after["cbin"]) != (before["bin"], before["cbin"]) or not W.ch.exists():
            raise Violation("C02.A1", f"{sig0}:refusal-changed-disk", "the refused decompression changed the recording's files | " + ctx)
    elif fired is None:
        # the operation failed although no fault was injected
        raise Violation("C02.P" if progress else "C02.L", f"{sig0}:{'retry-' if progress else ''}fails:{(out or {}).get('exc')}",
                        ("retry after the fault stopped failed | " if progress else "operation failed without any fault | ") + ctx)
    # ---- model := observation
    model["bin"] = {"other": "tainted"}.get(after["bin"], after["bin"])
    model["cbin"] = after["cbin"]
    if model["cbin"] == "other":
        # leftover of an interrupted source removal: the operator finishes the removal
        for p in (W.cbin, W.ch):
            if p.exists():
                p.unlink()
        model["cbin"] = "absent"
    if op in ("compress", "inplace_cycle") and after["cbin"] == "complete" and not (failed and before["cbin"] == "complete"):
        model["chunk_samples"] = st.get("chunk_samples")
        model["chunk_duration"] = st.get("chunk_duration")
        model["codec"] = {k: st[k] for k in ("do_spatial_diff", "comp_level") if st.get(k) is not None and st.get("via") == "kwargs"}
    if after["cbin"] != "complete":
        model["chunk_samples"] = model["chunk_duration"] = None
        model["codec"] = None
    # scratch outputs are consumed by the oracle and removed so that later to_scratch steps start clean or dirty by choice
    return fired is not None


def _selectors(r, ns, nc, cs, cache):
    """Sample/channel selectors biased to chunk boundaries, multi-chunk spans, > cache spans."""
    bounds = list(range(0, ns, cs)) + [ns] if cs else [0, ns]
    sels = []

    def near():
        b = r.choice(bounds)
        return max(-ns - 3, min(ns + 3, b + r.choice([-2, -1, 0, 1, 2])))

    for _ in range(6):
        kind = r.random()
        if kind < 0.2:
            i = r.choice([0, ns - 1, -1, -ns, max(0, min(ns - 1, near())), r.randrange(ns)])
            n = i
            cls = "int"
        elif kind < 0.85:
            a = r.choice([near(), near(), None, r.randrange(-ns, ns), 0])
            span = r.choice([1, 2, cs - 1, cs, cs + 1, 2 * cs + 1, 3 * cs, (cache + 1) * cs + 3, ns])
            b = None if r.random() < 0.1 else ((a or 0) + span if r.random() < 0.8 else near())
            step = r.choice([None, None, 1, 2, 3, 7, -1, -1, -2, -7])
            if step is not None and step < 0:
                a, b = b, a          # a decreasing slice: from the far end back towards the near one
            n = slice(a, b, step)
            cls = "slice" + ("+step" if step and step > 1 else "-step" if step and step < 0 else "") + (">cache" if span > cache * cs else "")
        else:
            a = near()
            n = slice(a, a + r.choice([0, -1, -5]))  # empty
            cls = "empty"
        ck = r.random()
        if ck < 0.3:
            c = None
        elif ck < 0.45:
            c = r.randrange(-nc, nc)
        elif ck < 0.7:
            c = slice(r.choice([None, 0, 1, nc // 2]), r.choice([None, -1, nc, nc // 2 + 1]))
        else:
            c = sorted(r.sample(range(nc), r.randrange(1, min(nc, 6) + 1))) if r.random() < 0.5 else [r.randrange(nc) for _ in range(r.randrange(1, 5))]
        sels.append((n, c, cls))
    return sels


def _rd(sr, n, c):
    return sr[n] if c is None else sr[n, c]


def _read_checks(W, model, rsel, log, stats, bump):
    """T and R: every entry path that exists resolves to the recording and reads equal the
    uncompressed original (reference copy) for every selector."""
    ns, nc = W.ns, W.nc
    cs = model.get("chunk_samples") or ns
    cache = W.knobs["cache_size"]
    W.set_config()
    sels = _selectors(rsel, ns, nc, cs, cache)
    ref = spikeglx.Reader(W.oracle / f"{STEM}.ap.bin")     # the oracle copy keeps the plain name
    entries = []
    if model["bin"] == "complete":
        entries.append(("bin", W.bin))
    if model["cbin"] == "complete":
        entries.append(("cbin", W.cbin))
    if model["bin"] != "tainted":
        entries.append(("meta", W.meta))
    try:
        for name, path in entries:
            present = f"bin={model['bin']},cbin={model['cbin']}"
            iw = rsel.random() < 0.3          # reader options must not make the two forms distinguishable
            try:
                sr = spikeglx.Reader(path, ignore_warnings=iw) if iw else spikeglx.Reader(path)
            except Exception as e:
                raise Violation("C02.R", f"open:{name}:{type(e).__name__}", f"Reader({name} path{', ignore_warnings=True' if iw else ''}) raised {e!r} with {present}")
            if iw:
                bump("probes", "read_checks_with_ignore_warnings")
            try:
                if not sr.is_open:
                    raise Violation("C02.R", f"open:{name}:not-open:{present}", f"Reader({name} path) did not resolve to a data file (file_bin={sr.file_bin}) with {present}")
                if name == "meta" and model["bin"] == "absent":
                    bump("probes", "meta_entry_with_only_cbin")
                if tuple(sr.shape) != (ns, nc) or sr.fs != ref.fs or sr.nc != ref.nc:
                    raise Violation("C02.T", f"shape:{name}", f"shape {sr.shape} != {(ns, nc)} via {name} with {present}{' (ignore_warnings=True)' if iw else ''}")
                for n, c, cls in sels:
                    try:
                        e = _rd(ref, n, c)
                    except Exception:
                        continue  # selector not defined on the uncompressed original either
                    try:
                        g = _rd(sr, n, c)
                    except Exception as ex:
                        raise Violation("C02.T", f"read-raises:{name}:{cls}", f"sr[{n},{c}] via {name} raised {ex!r}; fine on the original. chunk={cs} ns={ns}")
                    if g.shape != e.shape or g.dtype != e.dtype or not np.array_equal(g, e):
                        raise Violation("C02.T", f"read-differs:{name}:{cls}", f"sr[{n},{c}] via {name}: shape {g.shape} vs {e.shape}, equal={g.shape == e.shape and bool(np.array_equal(g, e))}. chunk={cs} ns={ns} cache={cache}")
                    if sr.is_mtscomp:
                        stats["distinct"].append(f"read|k{-(-ns // cs)}|c{cache}|{cls}")
                        if ">cache" in cls:
                            bump("probes", "read_spanning_more_than_cache")
                # the other read entry points: read() with sync, read_samples, read_sync
                a0 = rsel.randrange(0, max(1, ns - 1))
                a1 = min(ns + 5, a0 + rsel.choice([1, 7, cs, cs + 1, 300]))
                for desc, fn in (("read(sync)", lambda q: q.read(nsel=slice(a0, a1), csel=slice(None), sync=True)),
                                 ("read_samples", lambda q: q.read_samples(a0, a1)),
                                 ("read_sync", lambda q: (q.read_sync(slice(a0, a1)),))):
                    e_ = fn(ref)
                    try:
                        g_ = fn(sr)
                    except Exception as ex:
                        raise Violation("C02.T", f"read-raises:{name}:{desc}", f"{desc}({a0},{a1}) via {name} raised {ex!r}; fine on the original")
                    if len(e_) != len(g_) or any(x.shape != y.shape or not np.array_equal(x, y) for x, y in zip(e_, g_)):
                        raise Violation("C02.T", f"read-differs:{name}:{desc}", f"{desc}({a0},{a1}) via {name} differs from the original. chunk={cs} ns={ns}")
                log.append(["read", name, len(sels)])
            finally:
                sr.close()
    finally:
        ref.close()
    # remove scratch outputs (the oracle consumed them); leftovers *_temp stay as debris by design
    for p in list(W.root.rglob("*.bin")):
        if p != W.bin and p not in W.decoys and p not in W.store_files and rsel.random() < 0.7:
            p.unlink()
            m = p.with_suffix(".meta")
            if m.exists():
                m.unlink()


def sweep_plans(tier, verif_seed):
    """Fault sweeps: for seeded base configurations and each operation, EVERY event of the
    operation is faulted once with every applicable kind (kill, io_error, torn)."""
    from sim.common import run_seed
    nbase = {"quick": 2, "thorough": int(os.environ.get("VERIF_C02_SWEEPS", "24"))}[tier]
    for b in range(nbase):
        s = run_seed(verif_seed, PROP + "-sweep", b)
        r = rng_of(s)
        w = _gen_world(r, tier)
        w["nap"] = min(w["nap"], 32)
        w["ns"] = min(w["ns"], 8000)
        knobs = _gen_knobs(r)
        fs = world.meta_fs(w["fixture"])
        cs, cd = _chunking(r, w["ns"], fs)
        ck = {"chunk_samples": cs, "chunk_duration": cd, "n_threads": r.choice([1, 2, 4]), "check_after": r.random() < 0.7, "via": "kwargs"}
        pre_c = dict({"op": "compress", "keep_original": False, "fault": None}, **ck)
        targets = [
            ([], dict({"op": "compress", "keep_original": True}, **ck)),
            ([], dict({"op": "compress", "keep_original": False}, **ck)),
            ([pre_c], {"op": "decompress", "keep_original": True, "overwrite": False}),
            ([pre_c], {"op": "decompress", "keep_original": False, "overwrite": False}),
            ([pre_c], {"op": "to_scratch", "scratch_dir": "scratch"}),
            ([pre_c], {"op": "to_scratch", "scratch_dir": None}),
            ([pre_c], dict({"op": "inplace_cycle", "overwrite": False}, **ck)),
        ]
        if tier == "quick":
            targets = [targets[i] for i in sorted(r.sample(range(len(targets)), 3))]
        for pre, tgt in targets:
            base = {"property": PROP, "seed": s, "world": w, "knobs": knobs, "sel_seed": s % 100000,
                    "steps": [dict(x) for x in pre] + [dict(tgt, fault=None)], "want_events": True}
            res = run_plan(base)
            ev = (res.get("step_events") or [[]])[-1]
            # the header is written with ~70 small text writes: the first, the last and a few in between stand for all
            tw = [k for k, lab in enumerate(ev) if lab.startswith("twrite:")]
            keep_tw = set(tw[:1] + tw[-1:] + (sorted(r.sample(tw, min(len(tw), 3))) if tw else []))
            for k, lab in enumerate(ev):
                if not eligible(lab) or (lab.startswith("twrite:") and k not in keep_tw):
                    continue
                op = lab.split(":", 1)[0]
                kinds = ["kill", "io_error", "interrupt"] + (["torn", "short"] if op in ("write", "tofile") else []) + (["short"] if op == "copy" else [])
                for kind in kinds:
                    f = {"kind": kind, "at": k, "label": lab}
                    if kind in ("torn", "short"):
                        f["tear"] = 0.5
                    yield {"property": PROP, "seed": s, "world": w, "knobs": knobs, "sel_seed": s % 100000,
                           "steps": [dict(x) for x in pre] + [dict(tgt, fault=f)], "sweep_of": b}


def shrink_candidates(plan):
    steps = plan["steps"]
    # drop steps
    for i in range(len(steps)):
        c = dict(plan)
        c["steps"] = steps[:i] + steps[i + 1:]
        if c["steps"]:
            yield c
    # drop / weaken faults
    for i, st in enumerate(steps):
        f = st.get("fault")
        if f:
            c = dict(plan)
            c["steps"] = [dict(s) for s in steps]
            c["steps"][i]["fault"] = None
            yield c
            if f.get("kind") == "torn":
                c = dict(plan)
                c["steps"] = [dict(s) for s in steps]
                c["steps"][i]["fault"] = {"kind": "kill", "at": f["at"], "label": f["label"]}
                yield c
    # shrink the world
    w = plan["world"]
    if w["ns"] > 1000:
        c = dict(plan)
        c["world"] = dict(w, ns=1000)
        c["steps"] = [dict(s, fault=({"auto": True, "rseed": 1} if s.get("fault") else None)) for s in steps]
        yield c
    if w["nap"] > 2:
        c = dict(plan)
        c["world"] = dict(w, nap=2)
        c["steps"] = [dict(s, fault=({"auto": True, "rseed": 1} if s.get("fault") else None)) for s in steps]
        yield c
