#!/usr/bin/env python3
"""Re-run ./check selftest-mutants for the seeded changes matching the given filters and record the outcome in their
meta.json under checked_by["now"] (bookkeeping, not part of any check).  usage: tools/update_now.py r7A r7B ..."""
import json, re, subprocess, sys
from pathlib import Path
VERIF = Path(__file__).resolve().parent.parent
r = subprocess.run([str(VERIF / "check"), "selftest-mutants", "--"] + sys.argv[1:], capture_output=True, text=True, cwd=str(VERIF))
head = subprocess.run(["git", "-C", str(VERIF), "rev-parse", "--short", "HEAD"], capture_output=True, text=True).stdout.strip()
for ln in r.stdout.splitlines():
    m = re.match(r"seeded/(\S+): (CAUGHT|MISSED|PASSES|UNEXPECTED|PATCH)(.*)", ln)
    if not m:
        continue
    print(ln[:160])
    mp = VERIF / "seeded" / m.group(1) / "meta.json"
    meta = json.loads(mp.read_text())
    meta.setdefault("checked_by", {})["now"] = (m.group(2) + m.group(3))[:220]
    meta["checked_by"]["now_at_verif_commit"] = head + " (+ working tree)"
    mp.write_text(json.dumps(meta, indent=1))
