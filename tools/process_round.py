#!/usr/bin/env python3
"""Bookkeeping for one round of changes written by sub-agents (not part of any check).

usage: tools/process_round.py <round N> <baseline verif commit> [--skip-tests]
Expects, per property P in C02 C04 C06 C11 C13, a scratch worktree /tmp/seed<N>_<P> and the agent's
output in /tmp/seed<N>_<P>_out/<X>/{patch.diff,demo.py,notes.md}.  For every change it
  1. applies the patch in the worktree, runs demo.py (must exit 1), reverts, runs demo.py (must exit 0);
  2. runs the relevant existing test files with the patch applied;
  3. stores patch/demo/notes under /verif/seeded/<P>-r<N><X>/ with a meta.json skeleton;
  4. measures detection by the quick check with the machinery of <baseline commit> ("as delivered")
     and with the current tree ("now").
"""
import json
import os
import re
import shutil
import subprocess
import sys
from pathlib import Path

VERIF = Path(__file__).resolve().parent.parent
PROPS = ["C02", "C04", "C06", "C11", "C13"]
TESTS = {"C02": "src/tests/unit/test_spikeglx.py", "C11": "src/tests/unit/test_spikeglx.py",
         "C04": "src/tests/unit/test_ephys_np2.py src/tests/unit/test_neuropixel.py src/tests/unit/test_spikeglx.py",
         "C06": "src/tests/unit/test_ibldsp.py", "C13": "src/tests/unit/test_waveforms.py src/tests/unit/test_ibldsp.py src/tests/unit/test_spikeglx.py"}


def sh(cmd, **kw):
    return subprocess.run(cmd, shell=True, capture_output=True, text=True, **kw)


def main():
    n, base = sys.argv[1], sys.argv[2]
    skip_tests = "--skip-tests" in sys.argv
    tmpdir = f"/tmp/vt{n}_tmp"
    os.makedirs(tmpdir, exist_ok=True)
    names = []
    for p in PROPS:
        wt = f"/tmp/seed{n}_{p}"
        for x in "ABC":
            d = Path(f"/tmp/seed{n}_{p}_out/{x}")
            if not (d / "patch.diff").exists():
                continue
            name = f"{p}-r{n}{x}"
            sh(f"git -C {wt} checkout -q -- .")
            ap = sh(f"cd {wt} && git apply --check {d}/patch.diff && git apply {d}/patch.diff")
            if ap.returncode != 0:
                print(f"{name}: PATCH DOES NOT APPLY {ap.stderr[-200:]}")
                continue
            env = dict(os.environ, PYTHONPATH=f"{wt}/src", TMPDIR=tmpdir)
            w = subprocess.run(["/venv/bin/python", "demo.py"], cwd=d, env=env, capture_output=True, text=True, timeout=1200)
            tests = "skipped"
            if not skip_tests:
                t = subprocess.run(f"cd {wt} && /venv/bin/python -m pytest -q -p no:cacheprovider --timeout=900 {TESTS[p]} 2>&1 | tail -1",
                                   shell=True, env=env, capture_output=True, text=True, timeout=3000)
                tests = t.stdout.strip()
            sh(f"git -C {wt} checkout -q -- .")
            wo = subprocess.run(["/venv/bin/python", "demo.py"], cwd=d, env=env, capture_output=True, text=True, timeout=1200)
            print(f"{name}: demo with change exit {w.returncode}, without exit {wo.returncode}; tests with change: {tests}")
            out = VERIF / "seeded" / name
            out.mkdir(parents=True, exist_ok=True)
            for f in ("patch.diff", "demo.py", "notes.md"):
                if (d / f).exists():
                    shutil.copy(d / f, out / f)
            meta = {"id": name, "property": p, "change": "", "needs_to_manifest": "",
                    "source": f"independent sub-agent (round {n}) given only the property text and its own scratch worktree of /repo",
                    "confirmed": {"demo_with_change": f"exit {w.returncode}", "demo_without_change": f"exit {wo.returncode}",
                                  "existing_tests_with_change": tests,
                                  "commands": [f"git apply patch.diff (scratch worktree {wt})", "PYTHONPATH=<wt>/src /venv/bin/python demo.py",
                                               f"PYTHONPATH=<wt>/src /venv/bin/python -m pytest -q {TESTS[p]}"]},
                    "checked_by": {}}
            if (out / "meta.json").exists():
                old = json.loads((out / "meta.json").read_text())
                for k in ("change", "needs_to_manifest"):
                    meta[k] = old.get(k, "")
            (out / "meta.json").write_text(json.dumps(meta, indent=1))
            names.append(name)
    if not names:
        return
    # as delivered
    old = Path("/tmp/verif_old")
    sh(f"git -C {VERIF} worktree remove --force {old}")
    sh(f"git -C {VERIF} worktree add -f {old} {base}")
    for nm in names:
        shutil.copytree(VERIF / "seeded" / nm, old / "seeded" / nm, dirs_exist_ok=True)
    res = {}
    for label, root in (("as_delivered", old), ("now", VERIF)):
        r = sh(f"cd {root} && VERIF_JOBS=12 timeout 14000 ./check selftest-mutants -- r{n}A r{n}B r{n}C")
        for ln in r.stdout.splitlines():
            m = re.match(r"seeded/(\S+): (CAUGHT|MISSED|PASSES|UNEXPECTED|PATCH)(.*)", ln)
            if m:
                res.setdefault(m.group(1), {})[label] = (m.group(2) + m.group(3))[:220]
    sh(f"git -C {VERIF} worktree remove --force {old}")
    sh(f"git -C {VERIF} worktree prune")
    for nm in names:
        mp = VERIF / "seeded" / nm / "meta.json"
        meta = json.loads(mp.read_text())
        meta["checked_by"] = {"command": f"./check selftest-mutants seeded/{nm}", f"as_delivered (verif commit {base})": res.get(nm, {}).get("as_delivered"),
                              "now": res.get(nm, {}).get("now")}
        mp.write_text(json.dumps(meta, indent=1))
        print(nm, "| as delivered:", (res.get(nm, {}).get("as_delivered") or "?")[:90], "| now:", (res.get(nm, {}).get("now") or "?")[:90])


if __name__ == "__main__":
    main()
