#!/bin/bash
# usage: tools/try_patch.sh <PROP> <patch file> [check args...]   -- runs the property's check against a scratch copy of /repo/src with the patch applied
PROP=$1; PATCH=$(realpath "$2"); shift 2
COPY=/dev/shm/verif-try-$$
rm -rf $COPY; mkdir -p $COPY
cp -r /repo/src $COPY/src
find $COPY -name __pycache__ -prune -exec rm -rf {} +
(cd $COPY && git apply -p1 --whitespace=nowarn "$PATCH") || { echo "PATCH DOES NOT APPLY"; rm -rf $COPY; exit 3; }
cd "$(dirname "$0")/.."
VERIF_REPO=$COPY VERIF_SKIP_DET=1 ./check $PROP --tier quick --no-evidence "$@" 2>&1 | grep -v "^WARNING" | cut -c1-400 | tail -4
rm -rf $COPY
