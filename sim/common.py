"""Shared plumbing: repo import path, seed derivation, scratch dirs, digests.

Nothing in here draws from a PRNG or reads a clock on a path that influences a run.
"""
import hashlib
import json
import os
import random
import shutil
import sys
from pathlib import Path

VERIF = Path(__file__).resolve().parent.parent
REPO = Path(os.environ.get("VERIF_REPO", "/repo")).resolve()
GUARD = "IBL_NEUROPIXEL_VERIF"


def configure_logging(seed):
    """Logging configuration is part of the environment a run varies: for two runs out of three everything is disabled
    (quiet, fast), for the third the records are formatted and handled (to a sink), with the level at INFO - code whose
    behaviour depends on whether a logger is enabled sees both."""
    import logging
    if int(seed) % 3 == 0:
        logging.disable(logging.NOTSET)
        sink = open(os.devnull, "w")
        logging.basicConfig(stream=sink, level=logging.INFO, force=True)
        for name in ("ibllib", "mtscomp", "ibldsp"):
            logging.getLogger(name).setLevel(logging.INFO)
        return True
    logging.disable(logging.CRITICAL)
    return False


def setup_imports():
    """Make `import spikeglx` etc. resolve to $VERIF_REPO/src (the live working tree)."""
    src = str(REPO / "src")
    if sys.path[0] != src:
        if src in sys.path:
            sys.path.remove(src)
        sys.path.insert(0, src)
    stubs = str(VERIF / "stubs")
    if stubs not in sys.path:
        sys.path.insert(1, stubs)
    os.environ.setdefault(GUARD, "1")


def run_seed(verif_seed, prop, i):
    """Seed of run i: independent of pool size and of which worker executes it."""
    h = hashlib.sha256(f"{verif_seed}:{prop}:{i}".encode()).hexdigest()
    return int(h[:12], 16)


def rng_of(seed):
    return random.Random(seed)


def digest(obj):
    """Stable digest of a JSON-able object."""
    return hashlib.sha256(
        json.dumps(obj, sort_keys=True, default=_json_default).encode()
    ).hexdigest()[:16]


def _json_default(o):
    import numpy as np

    if isinstance(o, (np.integer,)):
        return int(o)
    if isinstance(o, (np.floating,)):
        return float(o)
    if isinstance(o, np.ndarray):
        return o.tolist()
    if isinstance(o, Path):
        return str(o)
    if isinstance(o, (set, frozenset)):
        return sorted(o)
    if isinstance(o, bytes):
        return o.hex()
    raise TypeError(type(o))


def jdump(obj, path=None, **kw):
    s = json.dumps(obj, sort_keys=True, default=_json_default, **kw)
    if path is not None:
        Path(path).write_text(s)
    return s


def scratch_root():
    base = os.environ.get("VERIF_SCRATCH")
    if base:
        return Path(base)
    shm = Path("/dev/shm")
    if shm.is_dir() and os.access(shm, os.W_OK):
        return shm
    return Path(os.environ.get("TMPDIR", "/var/tmp"))


_scratch_n = [0]


def new_scratch(tag="run"):
    _scratch_n[0] += 1
    p = scratch_root() / f"verif-{os.getpid()}-{tag}-{_scratch_n[0]}"
    if p.exists():
        shutil.rmtree(p, ignore_errors=True)
    p.mkdir(parents=True)
    return p


def rm_scratch(p):
    shutil.rmtree(p, ignore_errors=True)


def sha1_file(p):
    h = hashlib.sha1()
    with open(p, "rb") as f:
        for b in iter(lambda: f.read(1 << 20), b""):
            h.update(b)
    return h.hexdigest()


def snapshot(root):
    """{relpath: (size, sha1)} for every file below root, plus directories as (None, 'dir')."""
    root = Path(root)
    out = {}
    for dp, dns, fns in os.walk(root):
        dns.sort()
        rel = os.path.relpath(dp, root)
        if rel != ".":
            out[rel + "/"] = (None, "dir")
        for fn in sorted(fns):
            p = Path(dp) / fn
            r = os.path.relpath(p, root)
            try:
                out[r] = (p.stat().st_size, sha1_file(p))
            except FileNotFoundError:
                pass
    return out


def snap_diff(a, b):
    ks = sorted(set(a) | set(b))
    return [(k, a.get(k), b.get(k)) for k in ks if a.get(k) != b.get(k)]
