"""Tiny but structurally faithful SpikeGLX recordings derived from the shipped fixture metas.

Only the size-dependent fields of a fixture .meta are rewritten; everything else (gains,
probe type, imro table, sampling rate) stays what the fixture says.
"""
import re
from pathlib import Path

import numpy as np

from .common import REPO

FIX = REPO / "src" / "tests" / "fixtures"

FIXTURES = {
    "NP24": "sampleNP2.4_4shanks_g0_t0.imec.ap.meta",
    "NP24_int": "sampleNP2.4_4shanks_while_acquiring_incomplete.ap.meta",  # fs = 30000, interleaved shanks
    "NP21": "sampleNP2.1_g0_t0.imec.ap.meta",
    "NP1": "sample3B_g0_t0.imec1.ap.meta",
    "NP1_3A": "sample3A_g0_t0.imec.ap.meta",
}


def _fmt_float(x):
    """SpikeGLX writes plain decimals; the meta parser only recognises [0-9,.]* as numbers."""
    s = f"{x:.17f}".rstrip("0")
    return s + "0" if s.endswith(".") else s


def _read_lines(fixture):
    return (FIX / fixture).read_text().splitlines()


def meta_fs(fixture_key):
    for ln in _read_lines(FIXTURES[fixture_key]):
        if ln.startswith("imSampRate="):
            return float(ln.split("=", 1)[1])
    raise KeyError


def make_meta_text(fixture_key, nap, ns, shank_of=None, size_fields="complete",
                   claimed_ns=None, fs=None, ap_gains=None, time_decimals=None, sha1=None, flip_sites=False):
    """
    :param nap: number of AP channels (one sync channel is appended)
    :param ns: number of frames the metadata describes (when size_fields != 'none')
    :param shank_of: optional list[nap] of shank numbers (NP2.4): rewrites the shank field of
        the first nap snsShankMap entries
    :param size_fields: 'complete' (fileSizeBytes/fileTimeSecs from claimed_ns or ns),
        'none' (while-acquiring form: both fields absent)
    :param fs: override imSampRate
    """
    nc = nap + 1
    lines = _read_lines(FIXTURES[fixture_key])
    fs_eff = fs
    if fs_eff is None:
        fs_eff = meta_fs(fixture_key)
    cns = ns if claimed_ns is None else claimed_ns
    out = []
    seen = set()
    for ln in lines:
        if not ln.strip():
            continue
        k, v = ln.split("=", 1)
        kk = k.replace("~", "")
        seen.add(kk)
        if kk == "nSavedChans":
            v = str(nc)
        elif kk in ("snsApLfSy", "acqApLfSy"):
            v = f"{nap},0,1"
        elif kk == "snsSaveChanSubset":
            v = f"0:{nap}"
        elif kk == "fileSizeBytes":
            if size_fields in ("none", "time_only"):
                continue
            v = str(cns * nc * 2)
        elif kk == "fileTimeSecs":
            if size_fields in ("none", "size_only"):
                continue
            v = _fmt_float(cns / fs_eff) if time_decimals is None else f"{cns / fs_eff:.{int(time_decimals)}f}"
        elif kk == "imSampRate" and fs is not None:
            v = repr(fs) if fs != int(fs) else str(int(fs))
        elif kk == "imroTbl" and ap_gains is not None:
            # NP1 imro entries are "(chn bank ref apgain lfgain filter)": per-channel AP gains are legal
            head = re.match(r"\([0-9,]*\)", v).group(0)
            ents = re.findall(r"\(([0-9]+) ([0-9]+) ([0-9]+) ([0-9]+) ([0-9]+) ([0-9]+)\)", v)
            ents = [(e[0], e[1], e[2], str(int(ap_gains[i])) if i < len(ap_gains) else e[3], e[4], e[5]) for i, e in enumerate(ents)]
            v = head + "".join("(" + " ".join(e) + ")" for e in ents)
        elif kk == "fileSHA1" and sha1 is not None:
            v = sha1
        elif kk == "snsShankMap":
            head = re.match(r"\([0-9,]*\)", v).group(0)
            ents = re.findall(r"\(([0-9]*):([0-9]*):([0-9]*):([0-9]*)\)", v)[:nap]
            if flip_sites:
                # sites numbered from the top of the probe downwards: channel i sits where channel nap-1-i sat
                ents = ents[::-1]
            if shank_of is not None:
                ents = [(str(int(shank_of[i])), e[1], e[2], e[3]) for i, e in enumerate(ents)]
            v = head + "".join(f"({a}:{b}:{c}:{d})" for a, b, c, d in ents)
        out.append(f"{k}={v}")
    if size_fields != "none":
        if "fileSizeBytes" not in seen and size_fields != "time_only":
            out.append(f"fileSizeBytes={cns * nc * 2}")
        if "fileTimeSecs" not in seen and size_fields != "size_only":
            out.append("fileTimeSecs=" + (_fmt_float(cns / fs_eff) if time_decimals is None else f"{cns / fs_eff:.{int(time_decimals)}f}"))
    return "\n".join(out) + "\n"


def make_data(data_seed, ns, nap, saturate=None, amp=600, maxint=8192, smooth=False, extremes=False):
    """
    Seeded int16 content with structure: per-channel offsets, correlated noise, and a sync word
    that is a ramp with period 65536 so each frame is attributable.
    :param saturate: optional list of (first, last, frac_channels) stretches set to +-(maxint-1)
    :param smooth: slow sinusoids + small white noise (sample-to-sample steps stay far below the
        slew threshold of the saturation detector), amplitude `amp`
    """
    g = np.random.Generator(np.random.PCG64(data_seed))
    nc = nap + 1
    if smooth:
        t = np.arange(ns)[:, None]
        f = g.uniform(0.0005, 0.004, size=(3, nap))
        ph = g.uniform(0, 2 * np.pi, size=(3, nap))
        d = sum(np.sin(2 * np.pi * f[i] * t + ph[i]) for i in range(3)) * (amp / 3)
        d = d + np.sin(2 * np.pi * 0.0021 * t) * (amp / 4) + g.normal(0, max(1.0, amp / 25), size=(ns, nap))
        d = d + g.integers(-5, 5, size=(1, nap))
    else:
        common = g.normal(0, amp / 3, size=(ns, 1))
        d = g.normal(0, amp, size=(ns, nap)) + common + g.integers(-50, 50, size=(1, nap))
    d = np.clip(np.rint(d), -maxint + 1, maxint - 1).astype(np.int16)
    if saturate:
        for a, b, frac in saturate:
            nch = max(1, int(round(frac * nap)))
            chs = g.permutation(nap)[:nch]
            sign = 1 if g.integers(0, 2) else -1
            d[a:b, chs] = sign * (maxint - 1)
    if extremes:
        # the corners of the sample type and runs of exact zeros: lossless paths must carry them too
        ge = np.random.Generator(np.random.PCG64(data_seed ^ 0xE0E0))
        n = max(4, ns // 200)
        rr, cc = ge.integers(0, ns, size=n), ge.integers(0, nap, size=n)
        d[rr, cc] = ge.choice(np.array([-32768, 32767, -32767, 0, 1, -1], dtype=np.int16), size=n)
        a0 = int(ge.integers(0, max(1, ns - 20)))
        d[a0:a0 + 16, :] = 0
        d[0, :] = np.where(np.arange(nap) % 2 == 0, -32768, 32767)
        d[-1, :] = np.where(np.arange(nap) % 2 == 0, 32767, -32768)
    sync = ((np.arange(ns, dtype=np.int64) * 7 + 3) % 65536).astype(np.uint16).view(np.int16)
    out = np.empty((ns, nc), dtype=np.int16)
    out[:, :nap] = d
    out[:, nap] = sync
    return out


def write_recording(folder, stem, fixture_key, data, shank_of=None, size_fields="complete",
                    claimed_ns=None, fs=None, ap_gains=None, time_decimals=None, flip_sites=False):
    """Writes <stem>.ap.bin and <stem>.ap.meta into folder; returns bin path."""
    folder = Path(folder)
    folder.mkdir(parents=True, exist_ok=True)
    ns, nc = data.shape
    bin_file = folder / f"{stem}.ap.bin"
    data.tofile(bin_file)
    import hashlib
    (folder / f"{stem}.ap.meta").write_text(
        make_meta_text(fixture_key, nc - 1, ns, shank_of=shank_of, size_fields=size_fields,
                       claimed_ns=claimed_ns, fs=fs, ap_gains=ap_gains, time_decimals=time_decimals,
                       sha1=hashlib.sha1(data.tobytes()).hexdigest().upper(),      # the acquisition software records the file's true SHA-1
                       flip_sites=flip_sites)
    )
    return bin_file


def gen_shank_of(rng, nap, nshanks=4, style=None):
    """Channel -> shank assignment for NP2.4 worlds; every shank gets at least one channel."""
    style = style or rng.choice(["blocks", "interleaved", "random", "pairs"])
    if nshanks == 1:
        sh = rng.randrange(4)
        return [sh] * nap
    if style == "blocks":
        cuts = sorted(rng.sample(range(1, nap), nshanks - 1))
        out, s = [], 0
        for i in range(nap):
            while s < len(cuts) and i >= cuts[s]:
                s += 1
            out.append(s)
        return out
    if style == "interleaved":
        return [i % nshanks for i in range(nap)]
    if style == "pairs":
        return [(i // 2) % nshanks for i in range(nap)]
    out = [rng.randrange(nshanks) for _ in range(nap)]
    for s in range(nshanks):  # make sure every shank is populated
        if s not in out:
            out[rng.randrange(nap)] = s
    if len(set(out)) < nshanks:
        return [i % nshanks for i in range(nap)]
    return out
