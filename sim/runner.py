"""Generic driver: seeded runs on a process pool, determinism sample, minimisation, replay
verification in a fresh interpreter, known findings, evidence."""
import argparse
import collections
import concurrent.futures as cf
import faulthandler
import importlib
import json
import multiprocessing
import os
import re
import subprocess
import sys
import time
import traceback
from pathlib import Path

from .common import VERIF, REPO, run_seed, jdump, digest

EXIT_OK, EXIT_VIOLATION, EXIT_HARNESS = 0, 1, 2

CHECKS = {"C02": "checks.c02", "C04": "checks.c04", "C06": "checks.c06",
          "C11": "checks.c11", "C13": "checks.c13"}


def load_check(prop):
    return importlib.import_module(CHECKS[prop])


# ---------------------------------------------------------------------------------------------
# worker side

_MOD = {}


def _worker_init():
    faulthandler.enable()
    import logging
    logging.disable(logging.CRITICAL)
    import warnings
    warnings.filterwarnings("ignore")


def _get_mod(prop):
    if prop not in _MOD:
        _MOD[prop] = load_check(prop)
    return _MOD[prop]


def _do_run(args):
    """One run = one plan.  Returns a compact result dict (never raises)."""
    prop, kind, payload, tier = args
    mod = _get_mod(prop)
    t0 = time.monotonic()
    try:
        faulthandler.dump_traceback_later(getattr(mod, "RUN_TIMEOUT", 300), exit=True)
        if kind == "seed":
            plan = mod.gen_plan(payload, tier)
        else:
            plan = payload
        if getattr(mod, "ISOLATE", True) and not os.environ.get("VERIF_NO_ISOLATE"):
            # every run starts from pristine process state (module-level caches, patched globals):
            # the run executes in a forked child of this (never-used) worker and reports over a pipe
            from .proc import run_child
            from .common import configure_logging

            def _go(report, _plan=plan):
                configure_logging(_plan.get("seed", 0) if isinstance(_plan, dict) else 0)
                report({"result": mod.run_plan(_plan)})

            msgs, code = run_child(_go,
                                   timeout=getattr(mod, "RUN_TIMEOUT", 300))
            res = next((m["result"] for m in msgs if "result" in m), None)
            if res is None and code < 0 and getattr(mod, "SYSTEM_IN_RUN_PROCESS", False):
                # the code under test runs inside the run process for this check: a death by signal (SIGSEGV through a
                # closed mapping, SIGBUS on a truncated one) is the system's doing - worse than any exception it could raise
                res = {"violation": {"clause": f"{prop}.crash", "sig": f"process-died-signal{-code}",
                                     "detail": f"the process running the code under test died from signal {-code} (no Python exception): e.g. a read through a closed or truncated memory map"},
                       "stats": {"outcomes": {"violation": 1}}, "digest": f"died-signal{-code}", "sample": None}
            if res is None:
                raise RuntimeError(f"run process ended with code {code} without a result")
        else:
            res = mod.run_plan(plan)
        res.setdefault("plan", plan)
        res["wall"] = time.monotonic() - t0
        return res
    except BaseException:
        return {"harness_error": traceback.format_exc(), "plan": payload if kind != "seed" else {"seed": payload},
                "wall": time.monotonic() - t0}
    finally:
        faulthandler.cancel_dump_traceback_later()


# ---------------------------------------------------------------------------------------------
# known findings

def load_known(prop):
    p = VERIF / "known_findings.json"
    if not p.exists():
        return []
    data = json.loads(p.read_text())
    return [f for f in data.get("findings", []) if f.get("property") == prop and f.get("status") == "known"]


def match_known(known, violation):
    for f in known:
        if f.get("clause") and f["clause"] != violation.get("clause"):
            continue
        if re.fullmatch(f["sig"], violation.get("sig", "")):
            return f
    return None


# ---------------------------------------------------------------------------------------------

class Stats:
    def __init__(self):
        self.c = collections.defaultdict(collections.Counter)
        self.distinct = set()
        self.steps = 0
        self.sim_time = 0.0
        self.samples = []
        self.fidelity = []

    def add(self, st):
        for group, d in (st or {}).items():
            if group == "distinct":
                self.distinct.update(d)
            elif group == "steps":
                self.steps += d
            elif group == "sim_time":
                self.sim_time += d
            elif group == "fidelity_mismatch":
                self.fidelity.append(d)
            elif isinstance(d, dict):
                self.c[group].update(d)


def _fresh_digest(prop, plan, hashseed):
    """Execute a plan in a fresh interpreter under another PYTHONHASHSEED; return its result."""
    env = dict(os.environ)
    env["PYTHONHASHSEED"] = str(hashseed)
    env["VERIF_NO_REEXEC"] = "1"
    p = subprocess.run(
        [sys.executable, str(VERIF / "sim" / "main.py"), prop, "--exec-plan", "-"],
        input=jdump(plan), capture_output=True, text=True, env=env, timeout=600, cwd=str(VERIF))
    if p.returncode != 0:
        raise RuntimeError(f"fresh interpreter failed rc={p.returncode}: {p.stderr[-2000:]}")
    return json.loads(p.stdout.strip().splitlines()[-1])


def main(argv=None):
    ap = argparse.ArgumentParser()
    ap.add_argument("prop")
    ap.add_argument("--tier", default=os.environ.get("VERIF_TIER", "quick"), choices=["quick", "thorough"])
    ap.add_argument("--replay")
    ap.add_argument("--exec-plan")
    ap.add_argument("--runs", type=int)
    ap.add_argument("--budget", type=float, default=None)
    ap.add_argument("--jobs", type=int, default=int(os.environ.get("VERIF_JOBS", "0")) or min(16, os.cpu_count() or 1))
    ap.add_argument("--no-evidence", action="store_true")
    ap.add_argument("--first", type=int, default=0)
    ap.add_argument("--keep-going", action="store_true", help="do not stop at first violation (mutant triage)")
    a = ap.parse_args(argv)
    prop = a.prop
    mod = load_check(prop)
    _worker_init()

    if a.exec_plan:
        plan = json.loads(sys.stdin.read() if a.exec_plan == "-" else Path(a.exec_plan).read_text())
        res = _do_run((prop, "plan", plan, a.tier))
        if "harness_error" in res:
            sys.stderr.write(res["harness_error"])
            return EXIT_HARNESS
        print(jdump({"digest": res.get("digest"), "violation": res.get("violation")}))
        return EXIT_OK

    if a.replay:
        return replay(prop, mod, a.replay)

    return explore(prop, mod, a)


def replay(prop, mod, path):
    plan = json.loads(Path(path).read_text())
    want = plan.get("violation")
    res = _do_run((prop, "plan", plan, "quick"))
    if "harness_error" in res:
        print("HARNESS-ERROR", res["harness_error"])
        return EXIT_HARNESS
    v = res.get("violation")
    print(f"replay digest={res.get('digest')} expected={plan.get('digest')}")
    if v:
        print(f"violation clause={v['clause']} sig={v.get('sig')} detail={v.get('detail')}")
        known = match_known(load_known(prop), v)
        if known:
            print(f"KNOWN-FINDING: property={prop} {known['what']}")
            return EXIT_OK
        print(f"VIOLATION property={prop} replay={path}")
        return EXIT_VIOLATION
    print("no violation on this tree" + (f" (file recorded {want['clause']})" if want else ""))
    return EXIT_OK


def explore(prop, mod, a):
    t_start = time.monotonic()
    verif_seed = int(os.environ.get("VERIF_SEED", "0"))
    tier = a.tier
    cfgt = mod.TIERS[tier]
    n_runs = a.runs if a.runs is not None else cfgt["runs"]
    budget = a.budget if a.budget is not None else float(os.environ.get("VERIF_BUDGET_S", cfgt["budget_s"]))
    known = load_known(prop)
    stats = Stats()
    violations = []      # (violation, plan)
    known_hits = {}
    harness_errors = []
    digests = {}
    n_done = 0
    sample_plans = []

    ctx = multiprocessing.get_context("fork")
    jobs = []
    # systematic plans first (sweeps), then seeded plans
    sweep = list(mod.sweep_plans(tier, verif_seed)) if hasattr(mod, "sweep_plans") else []
    for pl in sweep:
        jobs.append((prop, "plan", pl, tier))
    for i in range(a.first, a.first + n_runs):
        jobs.append((prop, "seed", run_seed(verif_seed, prop, i), tier))

    def consume(res, job):
        nonlocal n_done
        n_done += 1
        if "harness_error" in res:
            harness_errors.append(res)
            return
        stats.add(res.get("stats"))
        key = jdump(job[2]) if job[1] == "plan" else job[2]
        digests[key] = res.get("digest")
        if len(sample_plans) < 4 and res.get("sample") is not None:
            sample_plans.append(res["sample"])
        for v in res.get("known_ok", []):
            pass
        v = res.get("violation")
        if v:
            k = match_known(known, v)
            if k:
                known_hits.setdefault(k["id"], (k, res["plan"], v))
            else:
                violations.append((v, res["plan"]))

    stop = False
    with cf.ProcessPoolExecutor(max_workers=a.jobs, mp_context=ctx, initializer=_worker_init) as ex:
        it = iter(jobs)
        pending = {}
        exhausted = False
        while True:
            while not exhausted and not stop and len(pending) < a.jobs * 3:
                try:
                    j = next(it)
                except StopIteration:
                    exhausted = True
                    break
                pending[ex.submit(_do_run, j)] = j
            if not pending:
                break
            done, _ = cf.wait(list(pending), timeout=10, return_when=cf.FIRST_COMPLETED)
            for f in done:
                j = pending.pop(f)
                try:
                    res = f.result()
                except Exception as e:  # worker died
                    res = {"harness_error": f"worker died: {e!r}", "plan": j[2]}
                consume(res, j)
            if (violations and not a.keep_going) or harness_errors:
                stop = True
            if time.monotonic() - t_start > budget:
                stop = True
            if stop:
                for f in pending:
                    f.cancel()
                # let the running ones finish, ignore their results
                exhausted = True
                pending = {f: j for f, j in pending.items() if not f.cancelled() and f.running()}
                if not pending:
                    break
                # do not wait for stragglers beyond a short grace period
                cf.wait(list(pending), timeout=30)
                break

    # determinism sample: re-run a few seeds in this process's pool-independent path and in a
    # fresh interpreter under another PYTHONHASHSEED
    det_pairs = det_mismatch = 0
    if not harness_errors and not violations and not os.environ.get("VERIF_SKIP_DET"):
        seeds = [j for j in jobs if j[1] == "seed"][: cfgt.get("det_pairs", 4)]
        for j in seeds:
            if j[2] not in digests:
                continue
            try:
                plan = mod.gen_plan(j[2], tier)
                r2 = _fresh_digest(prop, plan, hashseed=12345 + det_pairs)
            except Exception as e:
                harness_errors.append({"harness_error": f"determinism re-run failed: {e!r}"})
                break
            det_pairs += 1
            if r2["digest"] != digests[j[2]]:
                det_mismatch += 1
                harness_errors.append({"harness_error": f"HARNESS-NONDETERMINISM seed={j[2]} {digests[j[2]]} != {r2['digest']}"})

    rc = EXIT_OK
    out_lines = []
    if stats.fidelity and not violations and not harness_errors:
        harness_errors.append({"harness_error": "SIMULATOR-FIDELITY: a run under real joblib (uncontrolled scheduling) disagreed with the "
                               "simulated/1-worker result and no simulated run reproduced a violation: " + "; ".join(stats.fidelity[:3])})
    elif stats.fidelity:
        out_lines.append("note: a run under real joblib also disagreed with the 1-worker result (not replayable): " + stats.fidelity[0])
    if harness_errors:
        rc = EXIT_HARNESS
        for h in harness_errors[:3]:
            out_lines.append("HARNESS-ERROR " + str(h.get("harness_error"))[-3000:])
    reported = []
    if violations and rc == EXIT_OK:
        # minimise and verify the first few distinct violations
        seen_sig = set()
        for v, plan in violations:
            sg = (v["clause"], v.get("sig"))
            if sg in seen_sig:
                continue
            seen_sig.add(sg)
            if len(seen_sig) > (50 if a.keep_going else 1):
                break
            try:
                mplan, mv = minimise(mod, plan, v)
            except Exception:
                out_lines.append("HARNESS-ERROR minimisation failed: " + traceback.format_exc()[-2000:])
                rc = EXIT_HARNESS
                break
            # a minimised plan may have turned into a known finding's exact shape
            k = match_known(known, mv)
            if k:
                known_hits.setdefault(k["id"], (k, mplan, mv))
                continue
            mplan["violation"] = mv
            mplan["property"] = prop
            path = VERIF / "replays" / f"{prop}-{mplan.get('seed', 0)}-{digest(mv)[:6]}.json"
            path.parent.mkdir(exist_ok=True)
            res = _do_run((prop, "plan", mplan, tier))
            mplan["digest"] = res.get("digest")
            jdump(mplan, path, indent=1)
            try:
                r2 = _fresh_digest(prop, mplan, hashseed=777)
                tries = 1
                while not (r2.get("violation") and r2["violation"]["clause"] == mv["clause"]) and tries < 3:
                    # a system that draws from real entropy (or dies at a varying point) fails only some of the time
                    r2 = _fresh_digest(prop, mplan, hashseed=777 + tries)
                    tries += 1
                if tries > 1 and r2.get("violation") and r2["violation"]["clause"] == mv["clause"]:
                    mplan["replay_note"] = f"the violation reproduced in a fresh interpreter only at attempt {tries}: the system under test behaves nondeterministically under this plan"
            except Exception as e:
                out_lines.append(f"HARNESS-ERROR replay in fresh interpreter failed: {e!r}")
                rc = EXIT_HARNESS
                break
            v2 = r2.get("violation")
            if not v2 or v2["clause"] != mv["clause"]:
                out_lines.append(f"HARNESS-ERROR violation did not reproduce in a fresh interpreter: {path} got {r2}")
                rc = EXIT_HARNESS
                break
            if r2["digest"] != mplan["digest"]:
                # the same clause fails again, but the run's log differs: the SYSTEM is not deterministic under this plan
                # (typically its process died from a signal, e.g. reading through a mapping of a file it had deleted).
                # The violation stands; the replay file says that only the verdict, not the byte-exact history, repeats.
                mplan["replay_note"] = ("the violation (same clause" + ("" if v2.get("sig") == mv.get("sig") else f", signature {v2.get('sig')} instead of {mv.get('sig')}") +
                                        ") reproduces in a fresh interpreter, the run digest does not: the system under test behaves nondeterministically under this plan")
                jdump(mplan, path, indent=1)
                out_lines.append("note: the violation reproduces in a fresh interpreter but the run digest differs (nondeterministic system behaviour, e.g. death by signal)")
            out_lines.append(f"violation clause={mv['clause']} sig={mv.get('sig')} detail={str(mv.get('detail'))[:600]}")
            out_lines.append(f"VIOLATION property={prop} replay={path}")
            reported.append(str(path))
            rc = EXIT_VIOLATION
    for kid, (k, plan, v) in sorted(known_hits.items()):
        out_lines.append(f"KNOWN-FINDING: property={prop} {k['what']}")

    wall = time.monotonic() - t_start
    if not a.no_evidence:
        write_evidence(prop, mod, tier, verif_seed, n_done, stats, sample_plans, wall,
                       len(reported), det_pairs, det_mismatch, sorted(known_hits), len(sweep), a.jobs)
    for ln in out_lines:
        print(ln)
    print(f"{prop} tier={tier} seed={verif_seed} runs={n_done} distinct={len(stats.distinct)} "
          f"wall={wall:.1f}s faults={dict(stats.c.get('faults', {}))} exit={rc}")
    return rc


def minimise(mod, plan, v):
    """Greedy minimisation: ask the check module for candidate simplifications of the plan, keep
    one when the same clause still fails - and the failure has not turned into a listed known finding
    (shrinking a spike train may e.g. leave no valid spike at all, which fails the same clause for a
    different, already recorded reason: that would hide the violation being minimised).  Deterministic; bounded."""
    if not hasattr(mod, "shrink_candidates"):
        return plan, v
    known = load_known(mod.PROP)
    best, bestv = plan, v
    budget = getattr(mod, "SHRINK_BUDGET", 150)
    improved = True
    while improved and budget > 0:
        improved = False
        for cand in mod.shrink_candidates(best):
            budget -= 1
            if budget <= 0:
                break
            res = _do_run((mod.PROP, "plan", cand, "quick"))
            if "harness_error" in res:
                continue
            cv = res.get("violation")
            if cv and cv["clause"] == v["clause"] and match_known(known, cv) is None:
                best, bestv = res.get("plan", cand), cv
                improved = True
                break
    return dict(best), bestv


def write_evidence(prop, mod, tier, verif_seed, n_done, stats, samples, wall, n_viol,
                   det_pairs, det_mismatch, known_ids, n_sweep, jobs):
    cov = {
        "evaluations": n_done,
        "distinct_nontrivial": len(stats.distinct),
        "rule": mod.RULE,
        "samples": samples[:4] or [{"note": "no sample recorded"}],
        "exhaustive": False,
        "runs_per_hour": int(n_done / max(wall, 1e-6) * 3600),
        "sweep_plans": n_sweep,
        "simulated_steps": stats.steps,
        "simulated_time_s": round(stats.sim_time, 3),
        "simulated_time_note": getattr(mod, "SIM_TIME_NOTE", "no clock is read by the code under test; simulated time is not applicable"),
        "faults_injected": dict(stats.c.get("faults", {})),
        "fault_sites_hit": dict(stats.c.get("sites", {})),
        "probes": dict(stats.c.get("probes", {})),
        "outcomes": dict(stats.c.get("outcomes", {})),
        "components": mod.COMPONENTS,
        "determinism_pairs_checked": det_pairs,
        "determinism_mismatches": det_mismatch,
        "known_findings_hit": known_ids,
        "pool_workers": jobs,
        "repo": str(REPO),
    }
    for extra in ("config", "geometry"):
        if extra in stats.c:
            cov[extra] = dict(stats.c[extra])
    ev = {
        "property_id": prop,
        "tier": tier,
        "seed": verif_seed,
        "level": mod.LEVEL,
        "coverage": cov,
        "assumptions": mod.ASSUMPTIONS,
        "wall_s": round(wall, 2),
        "violations": n_viol,
    }
    d = VERIF / "evidence"
    d.mkdir(exist_ok=True)
    jdump(ev, d / f"{prop}.json", indent=1)
