"""Entry point: pins the environment (hash seed, BLAS threads, HOME) and dispatches."""
import os
import sys
from pathlib import Path

HERE = Path(__file__).resolve().parent
sys.path.insert(0, str(HERE.parent))

PIN = {"PYTHONHASHSEED": "0", "OPENBLAS_NUM_THREADS": "1", "OMP_NUM_THREADS": "1",
       "MKL_NUM_THREADS": "1", "NUMEXPR_NUM_THREADS": "1", "PYTHONDONTWRITEBYTECODE": "1",
       "TQDM_DISABLE": "1", "PYTHONWARNINGS": "ignore"}


def _pin_env():
    if os.environ.get("VERIF_NO_REEXEC"):
        for k, v in PIN.items():
            if k != "PYTHONHASHSEED":
                os.environ.setdefault(k, v)
        return
    need = any(os.environ.get(k) != v for k, v in PIN.items())
    if need:
        env = dict(os.environ)
        env.update(PIN)
        env["VERIF_NO_REEXEC"] = "1"
        os.execve(sys.executable, [sys.executable] + sys.argv, env)


if __name__ == "__main__":
    _pin_env()
    from sim import common
    common.setup_imports()
    if len(sys.argv) > 1 and sys.argv[1].startswith("selftest"):
        from sim import selftest
        sys.exit(selftest.main(sys.argv[1:]))
    from sim import runner
    sys.exit(runner.main(sys.argv[1:]))
