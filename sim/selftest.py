"""Self-tests of the machinery: environment, determinism, sensitivity (mutants)."""
import json
import os
import shutil
import subprocess
import sys
import time
from pathlib import Path

from .common import VERIF, REPO, run_seed, jdump, scratch_root


def main(argv):
    from . import runner
    runner._worker_init()
    cmd = argv[0]
    if cmd == "selftest-env":
        return env()
    if cmd == "selftest-determinism":
        return determinism(argv[1:])
    if cmd == "selftest-mutants":
        return mutants(argv[1:])
    print("unknown selftest", cmd)
    return 2


def env():
    import numpy as np
    import types
    from . import fsseam
    from .fsseam import SIM
    import spikeglx, neuropixel, mtscomp  # noqa
    import ibldsp.voltage, ibldsp.waveform_extraction  # noqa
    assert Path(spikeglx.__file__).resolve().is_relative_to(REPO), spikeglx.__file__
    # the tofile protocol the seam relies on
    m = types.ModuleType("m")
    exec("import numpy as np\n"
         "def go(p):\n"
         "    with open(p, 'wb') as f:\n"
         "        np.arange(10, dtype=np.int16).tofile(f)\n"
         "        f.write(b'abc')\n", m.__dict__)
    fsseam.install([m])
    d = scratch_root() / f"verif-env-{os.getpid()}"
    d.mkdir(exist_ok=True)
    try:
        SIM.reset(root=d, record_extents=True)
        SIM.active = True
        m.go(d / "x.bin")
        SIM.active = False
        assert SIM.events == ["open-wb:x.bin", "tofile:x.bin", "write:x.bin", "close:x.bin"], SIM.events
        assert SIM.extents == [("x.bin", 0, 20), ("x.bin", 20, 23)], SIM.extents
    finally:
        fsseam.uninstall([m])
        shutil.rmtree(d, ignore_errors=True)
    # no explicit .flush() in the code under the seam (the tofile detection relies on it only as a fallback)
    print("selftest-env ok; repo =", REPO)
    return 0


def determinism(argv):
    """Each of K seeds per property: twice in-process (different pool sizes) and once in a fresh
    interpreter under another PYTHONHASHSEED; digests must agree."""
    from . import runner
    props = [a for a in argv if a.startswith("C")] or list(runner.CHECKS)
    k = int(os.environ.get("VERIF_DET_K", "24"))
    bad = 0
    total = 0
    for prop in props:
        mod = runner.load_check(prop)
        for i in range(k):
            s = run_seed(int(os.environ.get("VERIF_SEED", "0")), prop, i)
            plan = mod.gen_plan(s, "quick")
            a = runner._do_run((prop, "plan", plan, "quick"))
            b = runner._do_run((prop, "plan", json.loads(jdump(plan)), "quick"))
            c = runner._fresh_digest(prop, plan, hashseed=1000 + i)
            total += 1
            ds = {a.get("digest"), b.get("digest"), c.get("digest")}
            if len(ds) != 1 or None in ds:
                bad += 1
                print(f"NONDETERMINISM {prop} seed={s}: {a.get('digest')} {b.get('digest')} {c.get('digest')} {a.get('harness_error', '')[-500:]}")
        print(f"{prop}: {k} seeds x 3 executions compared")
    print(f"selftest-determinism: {total} triples, {bad} mismatches")
    return 0 if bad == 0 else 2


def mutants(argv):
    """Apply each patch in /verif/mutants (and /verif/seeded/*/patch.diff) to a scratch copy of
    the repo and require the property's quick check to exit 1 there."""
    only = [a for a in argv if not a.startswith("-")]
    items = []
    expect_pass = set()
    for p in sorted((VERIF / "mutants").glob("*.patch")):
        items.append((p.stem.split("-")[0], p.stem, p))
    for d in sorted((VERIF / "seeded").glob("*/")):
        meta = d / "meta.json"
        if meta.exists() and (d / "patch.diff").exists():
            mj = json.loads(meta.read_text())
            items.append((mj.get("check_with") or mj["property"], "seeded/" + d.name, d / "patch.diff"))
            if mj.get("expect") == "pass":
                expect_pass.add("seeded/" + d.name)
    res_file = VERIF / "mutants" / "last_result.json"
    try:
        results = json.loads(res_file.read_text())
    except Exception:
        results = {}
    results = {k: v for k, v in results.items() if any(k == n for _, n, _ in items)}
    rc = 0
    for prop, name, patch in items:
        if only and not any(o in name or o == prop for o in only):
            continue
        copy = scratch_root() / f"verif-mutant-{os.getpid()}"
        shutil.rmtree(copy, ignore_errors=True)
        copy.mkdir()
        try:
            subprocess.run(["git", "-C", str(REPO), "worktree", "prune"], capture_output=True)
            shutil.copytree(REPO / "src", copy / "src", ignore=shutil.ignore_patterns("__pycache__", "*.pyc"))
            ap = subprocess.run(["git", "apply", "-p1", "--whitespace=nowarn", str(patch)], capture_output=True, text=True, cwd=str(copy))
            if ap.returncode != 0:
                ap = subprocess.run(["patch", "-p1", "--binary", "-d", str(copy), "-i", str(patch)], capture_output=True, text=True)
            if ap.returncode != 0:
                print(f"{name}: PATCH DOES NOT APPLY: {ap.stderr[-300:]}{ap.stdout[-300:]}")
                results[name] = "noapply"
                rc = 2
                continue
            env = dict(os.environ)
            env["VERIF_REPO"] = str(copy)
            env["VERIF_SKIP_DET"] = "1"
            env.pop("VERIF_NO_REEXEC", None)
            t0 = time.monotonic()
            p = subprocess.run([str(VERIF / "check"), prop, "--tier", "quick", "--no-evidence"], capture_output=True, text=True, env=env, cwd=str(VERIF), timeout=1500)
            dt = time.monotonic() - t0
            caught = p.returncode == 1 and "VIOLATION property=" in p.stdout
            if name in expect_pass:
                ok = p.returncode == 0
                why = json.loads((VERIF / name / "meta.json").read_text()).get("expect_why", "neutralised change") if name.startswith("seeded/") else "neutralised change"
                print(f"{name}: {'PASSES AS EXPECTED (' + why + ')' if ok else 'UNEXPECTED rc=%d' % p.returncode} in {dt:.0f}s")
                results[name] = "passes as expected" if ok else f"unexpected rc={p.returncode}"
                if not ok:
                    rc = 1
                continue
            vio = [ln for ln in p.stdout.splitlines() if ln.startswith("violation ")]
            print(f"{name}: {'CAUGHT' if caught else 'MISSED rc=%d' % p.returncode} in {dt:.0f}s {vio[0][:200] if vio else p.stdout[-300:]}")
            results[name] = "caught" if caught else f"missed rc={p.returncode}"
            if not caught:
                rc = 1
            for ln in p.stdout.splitlines():
                if ln.startswith("VIOLATION"):
                    rp = ln.split("replay=")[1].strip()
                    try:
                        os.unlink(rp)
                    except OSError:
                        pass
        finally:
            shutil.rmtree(copy, ignore_errors=True)
    jdump(results, res_file, indent=1)
    return rc
