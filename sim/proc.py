"""The system's process: each session of steps runs in a forked child; only durable state
(the scratch directory) and what the child reports over a pipe survive it."""
import json
import os
import select
import signal
import sys
import time
import traceback

from .common import _json_default


class ChildTimeout(Exception):
    pass


class ChildCrashed(Exception):
    pass


def run_child(fn, timeout=120.0):
    """Run fn(report) in a forked child.  `report(obj)` sends one JSON message to the parent.
    Returns (messages, exit_code).  exit_code 137 = simulated kill."""
    r, w = os.pipe()
    sys.stdout.flush()
    sys.stderr.flush()
    pid = os.fork()
    if pid == 0:
        code = 0
        try:
            os.close(r)

            def report(obj):
                data = (json.dumps(obj, default=_json_default) + "\n").encode()
                os.write(w, data)

            try:
                fn(report)
            except BaseException:
                code = 70
                try:
                    report({"harness_exception": traceback.format_exc()})
                except Exception:
                    pass
        finally:
            os._exit(code)
    os.close(w)
    buf = b""
    deadline = time.monotonic() + timeout  # wall clock guards hangs only; never feeds a run
    try:
        while True:
            left = deadline - time.monotonic()
            if left <= 0:
                os.kill(pid, signal.SIGKILL)
                os.waitpid(pid, 0)
                raise ChildTimeout(f"child exceeded {timeout}s")
            rl, _, _ = select.select([r], [], [], min(left, 5.0))
            if rl:
                chunk = os.read(r, 1 << 16)
                if not chunk:
                    break
                buf += chunk
    finally:
        os.close(r)
    _, status = os.waitpid(pid, 0)
    if os.WIFEXITED(status):
        code = os.WEXITSTATUS(status)
    else:
        code = -os.WTERMSIG(status)
    msgs = [json.loads(ln) for ln in buf.decode().splitlines() if ln.strip()]
    for m in msgs:
        if isinstance(m, dict) and "harness_exception" in m:
            raise ChildCrashed(m["harness_exception"])
    if code not in (0, 137, 3) and code >= 0:
        raise ChildCrashed(f"child exit code {code}; messages={msgs[-3:]}")
    # code < 0: the system's process died from a signal (e.g. SIGSEGV inside the code under
    # test): that is a crash of the system, not of the harness; durable state is what counts
    return msgs, code
