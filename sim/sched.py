"""Seeded scheduler standing in for joblib's fan-out.

`SimParallel(n_jobs)(delayed(f)(args) ...)` runs each simulated worker on a real thread, but
exactly one thread is runnable at any time (baton passing through per-thread Events), so the OS
never chooses who runs.  A line tracer installed on the frame of the task function makes every
line of the task body a pre-emption point.  All decisions (which worker advances, for how many
lines, which idle worker takes the next task) come from the run's PRNG or from a recorded trace.
"""
import copy
import linecache
import pickle
import re
import sys
import threading
import types

import numpy as np


class SchedConfig:
    """Set by the check before the code under test calls Parallel."""

    def __init__(self):
        self.reset()

    def reset(self, rng=None, p_switch=0.0, victim=None, trace=None, target_names=(), order=None,
              record_memmap=False, io_mode=False, delay=None, count_io=False, backend="loky"):
        self.backend = backend        # "loky": workers are processes (private module state, pickled arguments);
        #                               "threading": joblib's thread backend - workers share the process (module state, arguments, closures)
        self.rng = rng
        self.p_switch = p_switch
        self.victim = victim          # worker index with a low weight (starvation bias)
        self.replay = list(trace) if trace is not None else None
        self.trace = []               # recorded slices: [worker, lines_run, why]
        self.target_names = set(target_names)
        self.order = order            # optional explicit first-pick order for p_switch == 0
        self.record_memmap = record_memmap
        self.io_mode = io_mode        # pre-emption decisions only around lines that touch files
        self.delay = delay            # {"task": t, "at": e}: task t is suspended at its e-th file-touching line until every
        #                               other worker has finished (the classic "hold one worker at a chosen point" schedule)
        self.count_io = count_io
        self.io_counts = {}           # task index -> number of file-touching line events seen (for placing delays)
        self.io_sites = {}            # task index -> [source site "file:line" of each such event] (count_io pre-pass only)
        self.mm_writes = []           # (worker, task, key-summary) history of memmap stores
        self.calls = 0
        self.n_workers_used = []
        self.task_log = []            # (task index, worker) assignment
        self.current = None           # (worker, task) currently running


SCHED = SchedConfig()
from .common import REPO as _REPO      # noqa: E402
_REPO_SRC = str(_REPO / "src") + "/"

# --- process-local state of worker processes ---------------------------------------------------
# joblib's (loky) workers are separate, *reused* processes: mutable module-level state (caches)
# written inside a task lives in that worker only, starts from the import-time state, is not seen
# by the parent, and survives from one Parallel call to the next.  Threads share module globals, so
# the simulator swaps the mutable globals of the repository's modules at every baton hand-over:
# while worker k runs it sees its own copies (deep copies of the import-time snapshot taken by
# install()), and the parent's objects are put back when it parks.
_WATCHED = []          # module objects
_IMPORT_STATE = {}     # module name -> {global name: import-time value (containers deep-copied)}
_WORKER_STATE = {}     # worker idx -> {module name: {global name: value}}; lives as long as the process
_IMPORT_NAMES = {}     # module name -> every name bound at import time (whatever its type)


def _is_data(v):
    return not (isinstance(v, (types.ModuleType, types.FunctionType, types.BuiltinFunctionType, type)) or callable(v))


def _copy_container(v):
    if isinstance(v, (dict, list, set, np.ndarray)):
        try:
            return copy.deepcopy(v)
        except Exception:
            return v
    return v


def _snapshot_import_state(modules):
    for m in modules:
        if m in _WATCHED:
            continue
        _WATCHED.append(m)
        _IMPORT_STATE[m.__name__] = {n: _copy_container(v) for n, v in m.__dict__.items()
                                     if not n.startswith("__") and _is_data(v)}
        _IMPORT_NAMES[m.__name__] = set(m.__dict__)


def _enter_worker(idx):
    if SCHED.backend == "threading":
        return []
    return _enter_worker_proc(idx)


def _leave_worker(idx, saved):
    if SCHED.backend == "threading":
        return
    _leave_worker_proc(idx, saved)


def _enter_worker_proc(idx):
    """Bind the watched modules' data globals to worker idx's own values (import-time state at first,
    then whatever the worker left there); returns what is needed to put the parent's bindings back."""
    st = _WORKER_STATE.setdefault(idx, {})
    saved = []
    for m in _WATCHED:
        d = m.__dict__
        mine = st.get(m.__name__)
        if mine is None:
            mine = st[m.__name__] = {n: _copy_container(v) for n, v in _IMPORT_STATE[m.__name__].items()}
        parent = {n: v for n, v in d.items() if not n.startswith("__") and _is_data(v)}
        for n, v in mine.items():
            d[n] = v
        for n in parent:
            if n not in mine and n not in _IMPORT_NAMES[m.__name__]:
                # created by the parent at run time (not at import): a worker process never saw it
                del d[n]
        saved.append((m, parent))
    return saved


def _leave_worker_proc(idx, saved):
    st = _WORKER_STATE.setdefault(idx, {})
    for m, parent in saved:
        d = m.__dict__
        now = {n: v for n, v in d.items() if not n.startswith("__") and _is_data(v)}
        st[m.__name__] = {n: v for n, v in now.items() if n in _IMPORT_STATE[m.__name__] or n not in _IMPORT_NAMES[m.__name__]}
        for n in now:
            if n not in parent:
                del d[n]
        for n, v in parent.items():
            d[n] = v


class _Abort(BaseException):
    pass


def delayed(fn):
    def mk(*a, **k):
        return (fn, a, k)
    return mk


def cpu_count():
    return 16


class RecordingMemmap:
    """Proxy over an np.memmap argument: row stores enter the history, then go through."""

    def __init__(self, mm):
        self._mm = mm

    def __setitem__(self, key, value):
        k0 = key[0] if isinstance(key, tuple) else key
        rows = np.atleast_1d(np.arange(self._mm.shape[0])[k0]).tolist()
        self._mm[key] = value
        # what each row holds right after the store (whole row, so partial-row stores are comparable too)
        import zlib
        digs = [zlib.crc32(np.ascontiguousarray(self._mm[r_]).tobytes()) for r_ in rows]
        SCHED.mm_writes.append((SCHED.current, rows, digs))

    def __getitem__(self, key):
        return self._mm[key]

    def __getattr__(self, name):
        return getattr(self._mm, name)


def _isolate_closure(fn):
    """Processes get their own copy of everything a task function closes over; emulate that for
    mutable data containers so that threads cannot communicate through a closure."""
    if not isinstance(fn, types.FunctionType) or not fn.__closure__:
        return fn
    cells = []
    for c in fn.__closure__:
        try:
            v = c.cell_contents
        except ValueError:
            cells.append(c)
            continue
        if isinstance(v, np.memmap):
            nv = v
        elif isinstance(v, (np.ndarray, dict, list)):
            try:
                nv = copy.deepcopy(v)
            except Exception:
                nv = v
        else:
            nv = v
        cells.append(types.CellType(nv))
    g = types.FunctionType(fn.__code__, fn.__globals__, fn.__name__, fn.__defaults__, tuple(cells))
    g.__kwdefaults__ = fn.__kwdefaults__
    return g


def _isolate_arg(a):
    if isinstance(a, np.memmap):
        return RecordingMemmap(a) if SCHED.record_memmap else a
    try:
        return pickle.loads(pickle.dumps(a))
    except Exception:
        return a


_IO_RE = re.compile(r"open\(|np\.load|np\.save|tofile|\.seek\(|\.stat\(|memmap|unlink|rename|replace\(|exists\(|\.write\(|"
                    r"\.read\(|truncate|touch\(|mkdir|Reader\(|\.close\(|shutil\.|\.flush\(|getsize|fromfile|\[.*\] *= ")
_IO_LINES = {}


def _io_adjacent(frame):
    """True when the line about to run, or the one that just ran in this frame, touches a file (by its
    source text) or stores into an array slice (memmap stores look like that)."""
    co = frame.f_code
    tab = _IO_LINES.get(co)
    if tab is None:
        tab = set()
        try:
            first = co.co_firstlineno
            last = max((ln for _, _, ln in co.co_lines() if ln is not None), default=first)
        except Exception:
            first, last = co.co_firstlineno, co.co_firstlineno + 400
        for ln in range(first, last + 1):
            if _IO_RE.search(linecache.getline(co.co_filename, ln)):
                tab.add(ln)
                tab.add(ln + 1)
        _IO_LINES[co] = tab
    return frame.f_lineno in tab


def hold_index(d, sites):
    """Index (among the file-touching line events of a task) at which the task is held.  `sites` is the source site
    of each such event, from the counting pre-pass.  where='site': every distinct source line gets the same chance
    (one `truncate` line weighs as much as a loop body executed 200 times), then its first / last / a seeded occurrence;
    'start' / 'end': the first / last few events; 'any': uniform over events."""
    cnt = len(sites)
    if cnt == 0:
        return 0
    w = d.get("where", "any")
    span = min(8, cnt)
    if w == "end":
        return cnt - 1 - int(d["ef"] * span)
    if w == "start":
        return int(d["ef"] * span)
    if w == "site":
        # sites in the task body itself ("T|": the lines of the worker function and the file calls it makes directly) are
        # where workers meet on shared files; helper frames ("H|": reader construction etc.) get the smaller share
        body = sorted({x for x in sites if x.startswith("T|")})
        distinct = body if (body and d.get("sf2", 0.0) < 0.75) else sorted(set(sites))
        site = distinct[min(len(distinct) - 1, int(d.get("sf", 0.5) * len(distinct)))]
        occ = [i for i, x in enumerate(sites) if x == site]
        o = d.get("occ", "first")
        return occ[0] if o == "first" else occ[-1] if o == "last" else occ[min(len(occ) - 1, int(d["ef"] * len(occ)))]
    return min(cnt - 1, int(d["ef"] * cnt))


def hold_candidates(sites_by_task, body_only=False):
    """For sweeps: the first and the last occurrence of every distinct source site of every task
    (body_only: only sites in the task function itself and the file calls it makes directly)."""
    out = []
    for t in sorted(sites_by_task):
        seen = {}
        for i, x in enumerate(sites_by_task[t]):
            if body_only and not x.startswith("T|"):
                continue
            seen.setdefault(x, [i, i])[1] = i
        idx = sorted({i for fl in seen.values() for i in fl})
        out += [(t, i) for i in idx]
    return out


_IO_CALL_CODES = None


def _io_call_codes():
    """Code objects of Python-level library functions that touch files: ENTERING one of them is a pre-emption point too,
    so that two file operations written on ONE source line (`np.save(f, merge(np.load(f), mine))`) can be separated by
    another worker - line events alone cannot split them."""
    global _IO_CALL_CODES
    if _IO_CALL_CODES is None:
        import inspect
        import pathlib
        import shutil
        fns = [np.load, np.save, np.savez, np.lib.format.open_memmap, np.memmap.__new__, np.memmap.flush,
               pathlib.Path.stat, pathlib.Path.exists, pathlib.Path.unlink, pathlib.Path.rename, pathlib.Path.replace,
               pathlib.Path.touch, pathlib.Path.open, pathlib.Path.mkdir, pathlib.Path.write_bytes, pathlib.Path.read_bytes,
               pathlib.Path.write_text, pathlib.Path.read_text, shutil.copy, shutil.copyfile, shutil.move, shutil.rmtree]
        try:
            import pandas as pd
            fns += [pd.read_parquet, pd.DataFrame.to_parquet]
        except Exception:
            pass
        # methods of the seam's own file objects: a worker can be switched out between two calls on one source line
        # (`if fid.seek(0, 2) < first: fid.truncate(first)`)
        from . import fsseam as _fs
        fns += [_fs.SimFile.seek, _fs.SimFile.truncate, _fs.SimFile.write, _fs.SimFile.flush, _fs.SimFile.close, _fs.sim_open]
        codes = {}
        for f in fns:
            try:
                g = inspect.unwrap(f)
                codes[g.__code__] = getattr(g, "__qualname__", g.__name__)
            except Exception:
                pass
        _IO_CALL_CODES = codes
    return _IO_CALL_CODES


class _Worker:
    def __init__(self, idx, par):
        self.idx = idx
        self.par = par
        self.ev = threading.Event()
        self.budget = 0
        self.ran = 0
        self.state = "idle"      # idle | running | done
        self.suspended = False
        self.first = None
        self.why = None
        self.task = None
        self.thread = threading.Thread(target=self._main, name=f"simworker-{idx}", daemon=True)

    # -- runs on the worker thread
    def _main(self):
        par = self.par
        self.ev.wait()
        self.ev.clear()
        self._saved = _enter_worker(self.idx)
        try:
            while True:
                if par.abort:
                    break
                if self.first is not None:
                    ti, (fn, a, k) = self.first
                    self.first = None
                elif not par.queue:
                    break
                else:
                    ti, (fn, a, k) = par.queue.pop(0)
                self.task = ti
                SCHED.task_log.append((ti, self.idx))
                SCHED.current = (self.idx, ti)
                if SCHED.backend == "threading":
                    fn2 = fn
                    a2 = tuple(RecordingMemmap(x) if (isinstance(x, np.memmap) and SCHED.record_memmap) else x for x in a)
                    k2 = dict(k)
                else:
                    fn2 = _isolate_closure(fn)
                    a2 = tuple(_isolate_arg(x) for x in a)
                    k2 = {kk: _isolate_arg(v) for kk, v in k.items()}
                code = fn2.__code__
                self.state = "running"

                io_mode = SCHED.io_mode

                def local(frame, event, arg, _w=self):
                    if event == "line":
                        io = _io_adjacent(frame)
                        if io:
                            k = SCHED.io_counts.get(_w.task, 0)
                            SCHED.io_counts[_w.task] = k + 1
                            if SCHED.count_io:
                                co_ = frame.f_code
                                SCHED.io_sites.setdefault(_w.task, []).append(
                                    ("T|" if co_ is code else "H|") + f"{co_.co_filename.rsplit('/', 1)[-1]}:{co_.co_name}:{frame.f_lineno - co_.co_firstlineno}")
                            dl = SCHED.delay
                            if dl is not None and dl["task"] == _w.task and dl["at"] == k and not _w.par.abort:
                                dl["reached"] = True
                                co_ = frame.f_code
                                dl["site"] = f"{co_.co_filename.rsplit('/', 1)[-1]}:{co_.co_name}:{frame.f_lineno} " + linecache.getline(co_.co_filename, frame.f_lineno).strip()[:120]
                                _w.suspended = True
                                _w._handback("suspend")
                                if _w.par.abort:
                                    _w.aborting = True
                                    raise _Abort()
                        elif io_mode:
                            return local
                        _w._yield_point()
                    return local

                fine = SCHED.p_switch > 0 or SCHED.replay is not None or SCHED.delay is not None or SCHED.count_io

                io_calls = _io_call_codes()

                def glob(frame, event, arg, _code=code, _src=_REPO_SRC, _w=self):
                    if not fine:
                        return None      # run-to-completion schedules switch at task boundaries only: no line tracing needed
                    nm = io_calls.get(frame.f_code)
                    if nm is not None:
                        # entering a library function that touches a file: counts as a file-touching event of the task
                        k = SCHED.io_counts.get(_w.task, 0)
                        SCHED.io_counts[_w.task] = k + 1
                        if SCHED.count_io:
                            fb = frame.f_back
                            in_task = fb is not None and fb.f_code is _code
                            SCHED.io_sites.setdefault(_w.task, []).append(
                                ("T|" if in_task else "H|") + "call:" + nm + (f"@{fb.f_lineno - fb.f_code.co_firstlineno}" if in_task else ""))
                        dl = SCHED.delay
                        if dl is not None and dl["task"] == _w.task and dl["at"] == k and not _w.par.abort:
                            dl["reached"] = True
                            dl["site"] = "entering " + nm
                            _w.suspended = True
                            _w._handback("suspend")
                            if _w.par.abort:
                                _w.aborting = True
                                raise _Abort()
                        _w._yield_point()
                        return None
                    # every line of the task body AND of any function of the repository's own modules it
                    # calls is a pre-emption point (a read-then-write race hidden in a helper is reachable)
                    co = frame.f_code
                    if co is _code or co.co_filename.startswith(_src):
                        return local
                    return None

                sys.settrace(glob)
                try:
                    par.results[ti] = fn2(*a2, **k2)
                except _Abort:
                    sys.settrace(None)
                    break
                except BaseException as e:  # the task's own failure
                    sys.settrace(None)
                    par.error = par.error or e
                    par.abort = True
                    break
                finally:
                    sys.settrace(None)
                self.state = "idle"
                self.task = None
                # task end is always a decision point
                self._handback("task_end")
                if par.abort:
                    break
        finally:
            _leave_worker(self.idx, self._saved)
            self.state = "done"
            self.why = "exit"
            par.main_ev.set()

    def _yield_point(self):
        if self.par.abort:
            # let the task's own cleanup (finally blocks) run without parking again
            if not getattr(self, "aborting", False):
                self.aborting = True
                raise _Abort()
            return
        self.ran += 1
        self.budget -= 1
        if self.budget <= 0:
            self._handback("preempt")
            if self.par.abort:
                self.aborting = True
                raise _Abort()

    def _handback(self, why):
        self.why = why
        _leave_worker(self.idx, self._saved)
        self.par.main_ev.set()
        self.ev.wait()
        self.ev.clear()
        self._saved = _enter_worker(self.idx)
        SCHED.current = (self.idx, self.task)


class SimParallel:
    def __init__(self, n_jobs=None, **kw):
        self.n_jobs = n_jobs or 1
        if self.n_jobs < 0:
            # joblib's convention: -1 = all CPUs, -2 = all but one, ...
            self.n_jobs = max(1, cpu_count() + 1 + self.n_jobs)

    def __call__(self, iterable):
        tasks = list(iterable)
        SCHED.calls += 1
        self.queue = list(enumerate(tasks))
        self.results = [None] * len(tasks)
        self.error = None
        self.abort = False
        self.main_ev = threading.Event()
        n = max(1, min(self.n_jobs, len(tasks)))
        SCHED.n_workers_used.append(n)
        if self.n_jobs == 1:
            # joblib runs n_jobs=1 sequentially in the calling process: no worker, the caller's state
            out = []
            for ti, (fn, a, k) in enumerate(tasks):
                SCHED.task_log.append((ti, -1))
                SCHED.current = (-1, ti)
                a2 = tuple(RecordingMemmap(x) if (isinstance(x, np.memmap) and SCHED.record_memmap) else x for x in a)
                out.append(fn(*a2, **k))
            SCHED.trace.append([-1, len(tasks), "inline"])
            return out
        workers = [_Worker(i, self) for i in range(n)]
        # joblib hands one task to every worker as soon as the call starts; later tasks go to whoever is free
        first_owner = list(range(n))
        if SCHED.rng is not None and SCHED.replay is None:
            SCHED.rng.shuffle(first_owner)
        for wi in first_owner:
            if self.queue:
                workers[wi].first = self.queue.pop(0)
        for w in workers:
            w.thread.start()
        INF = 1 << 60
        while True:
            live = [w for w in workers if w.state != "done"]
            if not live:
                break
            w, L = self._pick(live, workers, INF)
            w.budget = L
            w.ran = 0
            self.main_ev.clear()
            w.ev.set()
            self.main_ev.wait()
            SCHED.trace.append([w.idx, w.ran, w.why])
            if self.abort:
                for x in workers:
                    if x.state != "done" and x is not w:
                        self.main_ev.clear()
                        x.ev.set()
                        self.main_ev.wait()
                # the failing/aborted worker may itself be parked in _handback
                for x in workers:
                    if x.state != "done":
                        self.main_ev.clear()
                        x.ev.set()
                        self.main_ev.wait()
                break
        for w in workers:
            w.thread.join(timeout=30)
        if self.error is not None:
            raise self.error
        return self.results

    def _pick(self, live, workers, INF):
        awake = [w for w in live if not w.suspended]
        if not awake:
            for w in live:
                w.suspended = False      # everybody else is done: the held worker goes on
            awake = live
        live = awake
        dl = SCHED.delay
        if dl is not None and SCHED.replay is None and not dl.get("reached"):
            # first bring the task to be held up to its hold point (it parks itself there) ...
            for w in live:
                if w.task == dl["task"] or (w.first is not None and w.first[0] == dl["task"]):
                    return w, INF
            # ... (if it sits in the queue, whoever is picked will get to it)
        if SCHED.replay is not None:
            while SCHED.replay:
                wi, L, _why = SCHED.replay.pop(0)
                if wi < len(workers) and workers[wi].state != "done" and workers[wi] in live:
                    return workers[wi], (L if L > 0 else 1)
            return live[0], INF
        rng = SCHED.rng
        if rng is None:
            return live[0], INF
        weights = [0.05 if w.idx == SCHED.victim else 1.0 for w in live]
        if SCHED.order:
            # explicit preference order (e.g. "last worker first") while it lasts
            pref = [w for i in SCHED.order for w in live if w.idx == i]
            if pref:
                w = pref[0]
                return w, (INF if SCHED.p_switch <= 0 else self._runlen(rng))
        w = rng.choices(live, weights=weights, k=1)[0]
        if SCHED.p_switch <= 0:
            return w, INF
        return w, self._runlen(rng)

    @staticmethod
    def _runlen(rng):
        p = SCHED.p_switch
        if p >= 1:
            return 1
        n = 1
        while rng.random() > p and n < 10000:
            n += 1
        return n


def install(modules, watch=()):
    """Replace joblib's Parallel/delayed (module globals) with the simulator's; `watch` lists the
    modules whose mutable globals are process-local state of the simulated workers."""
    _snapshot_import_state(list(watch))
    for m in modules:
        if "Parallel" in m.__dict__:
            m.__dict__["Parallel"] = SimParallel
        if "delayed" in m.__dict__:
            m.__dict__["delayed"] = delayed
        if "cpu_count" in m.__dict__:
            m.__dict__["cpu_count"] = cpu_count
