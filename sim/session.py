"""Running one step of the system in its own (forked) process under the file-system seam,
dry runs on a copy of the world to learn a step's event list, and fault placement."""
import json
import os
import random
import shutil
from pathlib import Path

from . import fsseam
from .fsseam import SIM, label_class
from .proc import run_child


class InlinePool:
    """Stands in for mtscomp's multiprocessing.dummy.Pool: runs the tasks in the caller, in a
    seeded permutation (models any completion order), returns results in input order."""
    seed = 0

    def __init__(self, n=None):
        self.n = n

    def map(self, fn, it):
        items = list(it)
        order = list(range(len(items)))
        random.Random(InlinePool.seed * 1000003 + len(items)).shuffle(order)
        res = [None] * len(items)
        for i in order:
            res[i] = fn(items[i])
        return res

    def close(self):
        pass

    def join(self):
        pass


def _tqdm(it=None, *a, **k):
    return it


import time as _real_time


class SimClock:
    """Stands in for the `time` module object referenced by a repo module: a virtual clock.  Reading it costs
    nothing and returns simulated seconds; sleeping advances it instead of blocking, so a retry loop with
    back-off runs in microseconds and is part of the simulated history."""
    now = 0.0
    slept = 0.0

    def __getattr__(self, name):
        return getattr(_real_time, name)

    @staticmethod
    def time():
        return SimClock.now

    monotonic = perf_counter = time

    @staticmethod
    def sleep(d):
        d = max(0.0, float(d))
        SimClock.now += d
        SimClock.slept += d


_FixedTime = SimClock()


def pin_dependencies(config_path=None, pool_seed=0):
    """Seams in mtscomp/spikeglx that are not faults: thread pool, progress bars, config file,
    wall clock.  Safe to call in any process (no file-system seam involved)."""
    import mtscomp
    import spikeglx
    InlinePool.seed = pool_seed
    mtscomp.ThreadPool = InlinePool
    mtscomp.tqdm = _tqdm
    mtscomp.CONFIG_PATH = Path(config_path) if config_path else Path("/nonexistent/.mtscomp")
    import sys
    for name in ("spikeglx", "neuropixel", "mtscomp", "ibldsp.voltage", "ibldsp.waveform_extraction", "ibldsp.utils", "ibldsp.fourier"):
        m = sys.modules.get(name)
        if m is not None and (name == "spikeglx" or "time" in m.__dict__) and getattr(m.__dict__.get("time"), "__name__", "time") == "time":
            m.__dict__["time"] = _FixedTime


def write_config(path, knobs):
    Path(path).write_text(json.dumps(knobs))


def seam_modules():
    import mtscomp
    import neuropixel
    import spikeglx
    return [spikeglx, neuropixel, mtscomp]


def run_step(root, do_step, step, fault=None, config_path=None, pool_seed=0, timeout=120.0,
             pre=None, read_events=False):
    """Execute do_step(step, root) in a forked child under the seam.
    Returns {'outcome': ..., 'events': [...], 'fired': {...}|None, 'exit': code}.
    outcome: {'ok': result} | {'exc': type, 'msg': str} | None when the process was killed."""
    root = Path(root)

    def child(report):
        # (logging configuration is inherited from the run process, which varies it per run)
        pin_dependencies(config_path, pool_seed)
        _real_time.sleep = SimClock.sleep          # this process is the system's: no real blocking anywhere
        mods = seam_modules()
        fsseam.install(mods)
        if pre is not None:
            pre()

        def on_kill(info):
            report({"fired": info, "events": SIM.events, "killed": True})

        SIM.reset(root=root, fault=fault, on_kill=on_kill)
        SIM.read_events = read_events
        SIM.active = True
        try:
            try:
                res = do_step(step, root)
                outcome = {"ok": res}
            except (Exception, KeyboardInterrupt) as e:  # the system's own failure: part of the history
                import traceback
                tb = traceback.extract_tb(e.__traceback__)
                where = [f"{os.path.basename(f.filename)}:{f.name}" for f in tb][-4:]
                outcome = {"exc": type(e).__name__, "msg": str(e)[:300], "where": where}
        finally:
            SIM.active = False
        # the system's process ends normally here: its exit handlers run (a killed process never gets this far)
        try:
            import atexit
            atexit._run_exitfuncs()
        except BaseException:
            pass
        report({"outcome": outcome, "events": SIM.events, "fired": SIM.fired, "clock": SimClock.now})

    msgs, code = run_child(child, timeout=timeout)
    out = {"outcome": None, "events": [], "fired": None, "exit": code, "clock": 0.0}
    for m in msgs:
        if "clock" in m:
            out["clock"] = m["clock"]
        if "events" in m:
            out["events"] = m["events"]
        if m.get("fired") is not None:
            out["fired"] = m["fired"]
        if "outcome" in m:
            out["outcome"] = m["outcome"]
    if code < 0 and out["outcome"] is None:
        out["outcome"] = {"exc": f"ProcessDiedSignal{-code}", "msg": "the system's process died from a signal", "where": []}
    if code == 3:
        raise RuntimeError(f"HARNESS-NONDETERMINISM: planned fault label differs: {out['fired']}")
    return out


def dry_run(root, do_step, step, config_path=None, pool_seed=0, pre=None, copy_root=None, read_events=False):
    """Fault-free execution of the step on a copy of the world; returns its result dict."""
    root = Path(root)
    copy = Path(copy_root) if copy_root else root.parent / (root.name + ".dry")
    if copy.exists():
        shutil.rmtree(copy)
    shutil.copytree(root, copy, symlinks=True)
    try:
        return run_step(copy, do_step, step, None, config_path, pool_seed, pre=pre, read_events=read_events)
    finally:
        shutil.rmtree(copy, ignore_errors=True)


def _cross_dir(label):
    p = label.split(":", 1)[1].split("->")
    return len(p) == 2 and os.path.dirname(p[0]) != os.path.dirname(p[1])


IO_ERROR_OPS = ("open-", "write", "twrite", "tofile", "close", "rename", "replace", "unlink", "mkdir", "move", "copy")


def place_fault(rng, events, eligible, kinds=("kill", "io_error", "torn"), occ=None, tear=None):
    """Pick a label class uniformly among eligible events, then an occurrence in it, then a
    fault kind applicable to that operation.  Returns a fault dict or None."""
    by_class = {}
    for k, lab in enumerate(events):
        if eligible(lab):
            by_class.setdefault(label_class(lab), []).append(k)
    if not by_class:
        return None
    cls = rng.choice(sorted(by_class))
    want_occ, occ = occ, by_class[cls]
    # bias towards first / last occurrence (first chunk, short last chunk)
    u = rng.random()
    occs = occ
    k = occs[0] if u < 0.2 else occs[-1] if u < 0.4 else rng.choice(occs)
    if want_occ is not None:          # explicit occurrence (sweeps): "first" / "last" / index
        k = occs[0] if want_occ == "first" else occs[-1] if want_occ == "last" else occs[max(-len(occs), min(len(occs) - 1, int(want_occ)))]
    lab = events[k]
    op = lab.split(":", 1)[0]
    ks = [x for x in kinds if x not in ("torn", "corrupt", "short") or op in ("write", "tofile") or (x in ("torn", "short") and op == "move" and _cross_dir(lab))
          or (x == "short" and op == "copy")]
    if op.startswith("enter") or op.startswith("exit"):
        ks = [x for x in ks if x in ("kill", "interrupt")] or ["kill"]
    kind = rng.choice(ks) if ks else "kill"      # a write-only kind on a non-write event degrades to a kill there
    f = {"kind": kind, "at": k, "label": lab}
    if kind in ("torn", "corrupt", "short"):
        f["tear"] = rng.choice([0.0, 0.01, 0.25, 0.5, 0.75, 0.99, 1.0, round(rng.random(), 3)])      # 0.0 / 1.0: the very first / very last byte of the extent
    if tear is not None and "tear" in f:
        f["tear"] = tear
    if kind == "short":
        f["errno"] = 28
    if kind == "io_error":
        f["errno"] = rng.choice([28, 5])  # ENOSPC, EIO
        if rng.random() < 0.3:
            f["persistent"] = True        # the disk stays full for the rest of the operation: later WRITES fail too
    return f
