"""File-system seam: every mutating file operation the system performs becomes a numbered,
labelled event owned by the simulator, at which a fault may be injected.

Seams taken (all pre-existing in the code, no repository hook):
  * the name `open` in the globals of spikeglx / neuropixel / ibldsp.voltage / mtscomp
  * pathlib.Path.rename / unlink / mkdir / replace, and the `shutil` object spikeglx references
  * NumPy's ndarray.tofile(fileobj) protocol: flush() before, seek(pos) after the C-level write
Fault kinds: io_error (raise OSError instead of performing the event), kill (os._exit before
the event), torn (perform a write, keep only a prefix of it, then os._exit), interrupt (raise
KeyboardInterrupt before the event), corrupt (perform a write, then flip one stored byte), short (transfer only a
prefix of a write / copy / cross-directory move, then raise OSError: the process goes on).
"""
import builtins
import errno
import os
import pathlib
import shutil as _shutil
import sys

_real_open = builtins.open
_P = pathlib.Path
_real = {
    "rename": _P.rename,
    "replace": _P.replace,
    "unlink": _P.unlink,
    "mkdir": _P.mkdir,
    "move": _shutil.move,
    "copy": _shutil.copy,
}

KILL_EXIT = 137


class SimState:
    def __init__(self):
        self.active = False
        self.root = None       # labels are relative to this directory
        self.events = []       # labels, in order
        self.fault = None      # {'kind','at','label','tear'}
        self.fired = None
        self.on_kill = None    # callback(info) run just before os._exit (simulator reporting)
        self.extents = None    # optional list collecting (relpath, pos0, pos1) write extents
        self.listener = None   # optional callback(label) after logging an event
        self.tagger = None     # optional callable giving (worker, task) for extents/events
        self.capture = False   # read back and keep the bytes of every recorded extent
        self.read_events = False  # binary reads through the seam are events too (read-side I/O errors)

    def reset(self, root=None, fault=None, on_kill=None, record_extents=False):
        self.active = False
        self.root = str(root) if root is not None else None
        self.events = []
        self.fault = fault
        self.fired = None
        self.on_kill = on_kill
        self.extents = [] if record_extents else None
        self.listener = None
        self.tagger = None
        self.capture = False
        self.read_events = False


SIM = SimState()


import re as _re
_RND = _re.compile(r"^[a-z0-9_]{8}$")
_KNOWN8 = {"cbin_tmp", "bin_temp"}


def _mask_random(name):
    """tempfile.mkstemp puts eight random characters into a name: labels must not depend on them."""
    return ".".join("<rnd>" if (_RND.match(t) and t not in _KNOWN8 and any(c.isdigit() or c == "_" for c in t)) else t for t in name.split("."))


def _rel(p):
    p = _rel0(p)
    d, b = os.path.split(p)
    return os.path.join(d, _mask_random(b)) if b else p


def _rel0(p):
    p = os.fspath(p)
    if not isinstance(p, str):
        p = os.fsdecode(p)
    if SIM.root and os.path.isabs(p):
        try:
            r = os.path.relpath(p, SIM.root)
        except ValueError:
            return p
        if r.startswith(".."):
            # outside the simulated world (e.g. a temporary directory with a random name): only the file name is stable
            return "<outside>/" + os.path.basename(p)
        return r
    return p


def event(op, path, can_error=True, path2=None):
    """Log an event; apply the planned fault if this is its index.
    Returns 'tear' if the caller (a write) must perform a torn write then die."""
    if not SIM.active:
        return None
    label = f"{op}:{_rel(path)}" + (f"->{_rel(path2)}" if path2 is not None else "")
    k = len(SIM.events)
    SIM.events.append(label)
    if SIM.listener is not None:
        SIM.listener(label)
    f = SIM.fault
    if f is not None and f.get("persistent") and f["kind"] == "io_error" and k > f["at"] and SIM.fired is not None and can_error \
            and (op in ("write", "twrite", "tofile", "close", "copy") or op == f.get("label", ":").split(":", 1)[0]):
        # the condition persists (disk full, dead mount): every later operation that can fail, fails
        SIM.fired["repeats"] = SIM.fired.get("repeats", 0) + 1
        raise OSError(f.get("errno", errno.ENOSPC), "simulated persistent I/O error", label)
    if f is not None and f["at"] == k and SIM.fired is None:
        if f.get("label") is not None and f["label"] != label:
            SIM.fired = {"kind": "mismatch", "at": k, "label": label, "planned": f["label"]}
            die(SIM.fired, code=3)
        kind = f["kind"]
        if kind == "kill":
            SIM.fired = {"kind": "kill", "at": k, "label": label}
            die(SIM.fired)
        if kind == "interrupt":
            # the operator's Ctrl-C / a cancelled job: a BaseException raised at this point; unlike a kill the
            # system's own `finally` / `except BaseException` handlers run, unlike an I/O error `except Exception` ones do not
            SIM.fired = {"kind": "interrupt", "at": k, "label": label}
            raise KeyboardInterrupt("simulated interrupt at " + label)
        if kind == "corrupt":
            if op in ("write", "tofile"):
                return "corrupt"
            SIM.fired = {"kind": "corrupt_ignored", "at": k, "label": label}
            return None
        if kind == "short":
            # the call transfers only a prefix and then reports ENOSPC/EIO: the process goes on (its handlers run), the
            # destination holds a partial result
            if op in ("write", "tofile"):
                return "short"
            if op == "copy" or (op == "move" and path2 is not None and os.path.dirname(os.path.abspath(os.fspath(path))) != os.path.dirname(os.path.abspath(os.fspath(path2)))):
                return "short"
            SIM.fired = {"kind": "io_error", "at": k, "label": label, "note": "short-on-non-transfer"}
            raise OSError(f.get("errno", errno.ENOSPC), "simulated I/O error", label)
        if kind == "torn":
            if op in ("write", "tofile"):
                return "tear"
            if op == "move" and path2 is not None and os.path.dirname(os.path.abspath(os.fspath(path))) != os.path.dirname(os.path.abspath(os.fspath(path2))):
                return "tear"       # a move across directories may be a copy (other filesystem): it can die half-way
            SIM.fired = {"kind": "kill", "at": k, "label": label, "note": "torn-on-non-write"}
            die(SIM.fired)
        if kind == "io_error":
            if can_error:
                SIM.fired = {"kind": "io_error", "at": k, "label": label}
                raise OSError(f.get("errno", errno.ENOSPC), "simulated I/O error", label)
            SIM.fired = {"kind": "io_error_ignored", "at": k, "label": label}
    return None


def die(info, code=KILL_EXIT):
    cb = SIM.on_kill
    SIM.active = False
    if cb is not None:
        try:
            cb(info)
        except Exception:
            pass
    os._exit(code)


def note_extent(path, pos0, pos1):
    if SIM.extents is not None and SIM.active:
        if SIM.tagger is None and not SIM.capture:
            SIM.extents.append((_rel(path), int(pos0), int(pos1)))
            return
        data = None
        if SIM.capture:
            fd = os.open(path, os.O_RDONLY)
            try:
                data = os.pread(fd, int(pos1 - pos0), int(pos0))
            finally:
                os.close(fd)
        SIM.extents.append((_rel(path), int(pos0), int(pos1), SIM.tagger() if SIM.tagger else None, data))


class SimFile:
    """Wrapper over a real writable file object; write / tofile / close are events."""

    def __init__(self, f, path, mode):
        object.__setattr__(self, "_f", f)
        object.__setattr__(self, "_path", os.fspath(path))
        object.__setattr__(self, "_mode", mode)
        object.__setattr__(self, "_tofile_pos0", None)
        object.__setattr__(self, "_tear", False)
        object.__setattr__(self, "_closed_by_sim", False)

    # -- delegation
    def __getattr__(self, name):
        return getattr(self._f, name)

    def __setattr__(self, name, value):
        if name in ("_tofile_pos0", "_tear", "_closed_by_sim"):
            object.__setattr__(self, name, value)
        else:
            setattr(self._f, name, value)

    def __enter__(self):
        return self

    def __exit__(self, *a):
        self.close()
        return False

    def __iter__(self):
        return iter(self._f)

    def fileno(self):
        return self._f.fileno()

    def tell(self):
        return self._f.tell()

    @property
    def name(self):
        return self._f.name

    @property
    def closed(self):
        return self._f.closed

    def _binary(self):
        return "b" in self._mode

    # -- events
    def write(self, data):
        op = "write" if self._binary() else "twrite"
        act = event(op, self._path)
        if act == "tear":
            self._torn_write(data)
        if act == "short":
            f = SIM.fault
            self._f.flush()
            pos0 = self._f.tell()
            mv = memoryview(data).cast("B") if not isinstance(data, (bytes, bytearray)) else data
            p = _tear_len(f.get("tear"), len(mv))
            self._f.write(mv[:p])
            self._f.flush()
            SIM.fired = {"kind": "short", "at": f["at"], "label": SIM.events[-1], "kept": p, "of": len(mv), "pos0": pos0}
            raise OSError(f.get("errno", errno.ENOSPC), "simulated short write", self._path)
        if act == "corrupt":
            self._f.flush()
            p0 = self._f.tell()
            n = self._f.write(data)
            self._f.flush()
            _flip_byte(self._path, p0, self._f.tell())
            return n
        if self._binary() and SIM.extents is not None and SIM.active:
            p0 = self._f.tell()
            n = self._f.write(data)
            if SIM.capture:
                self._f.flush()
            note_extent(self._path, p0, self._f.tell())
            return n
        return self._f.write(data)

    def _torn_write(self, data):
        f = SIM.fault
        self._f.flush()
        pos0 = self._f.tell()
        mv = memoryview(data).cast("B") if not isinstance(data, (bytes, bytearray)) else data
        n = len(mv)
        p = _tear_len(f.get("tear"), n)
        self._f.write(mv[:p])
        self._f.flush()
        SIM.fired = {"kind": "torn", "at": f["at"], "label": SIM.events[-1], "kept": p, "of": n,
                     "pos0": pos0}
        die(SIM.fired)

    def flush(self):
        # ndarray.tofile(fileobj) calls flush() first: this is its "before" event.  A plain
        # flush() from Python code arrives here too; the two are told apart in seek().
        if SIM.active and self._binary() and _called_from_tofile():
            act = event("tofile", self._path)
            self._f.flush()
            self._tofile_pos0 = self._f.tell()
            self._tear = act
            return None
        return self._f.flush()

    def seek(self, pos, whence=0):
        pos0 = self._tofile_pos0
        if pos0 is not None and SIM.active:
            # "after" half of ndarray.tofile: the C-level fwrite has put [pos0, pos) in the file
            self._tofile_pos0 = None
            r = self._f.seek(pos, whence)
            note_extent(self._path, pos0, pos)
            if self._tear == "corrupt":
                _flip_byte(self._path, pos0, pos)
            elif self._tear == "short":
                f = SIM.fault
                n = pos - pos0
                p = _tear_len(f.get("tear"), n)
                os.ftruncate(self._f.fileno(), pos0 + p)
                self._f.seek(pos0 + p)
                self._tear = False
                SIM.fired = {"kind": "short", "at": f["at"], "label": SIM.events[-1], "kept": p, "of": n, "pos0": pos0}
                raise OSError(f.get("errno", errno.ENOSPC), "simulated short write", self._path)
            elif self._tear == "tear":
                f = SIM.fault
                n = pos - pos0
                p = _tear_len(f.get("tear"), n)
                os.ftruncate(self._f.fileno(), pos0 + p)
                SIM.fired = {"kind": "torn", "at": f["at"], "label": SIM.events[-1], "kept": p,
                             "of": n, "pos0": pos0}
                die(SIM.fired)
            return r
        return self._f.seek(pos, whence)

    def truncate(self, size=None):
        # a Python-level method (not delegated) so that the scheduler sees the call: check-then-truncate races
        self._f.flush()
        return self._f.truncate(size) if size is not None else self._f.truncate()

    def close(self):
        if self._f.closed:
            return None
        writable = any(c in self._mode for c in "wa+")
        if SIM.active and writable:
            try:
                event("close", self._path)
            except OSError:
                # failed flush-at-close: buffered bytes are lost, the descriptor is closed
                fd_size = os.fstat(self._f.fileno()).st_size
                try:
                    self._f.close()
                finally:
                    with _real_open(self._path, "r+b") as g:
                        g.truncate(fd_size)
                raise
        return self._f.close()


_READ_FDS = {}      # fd -> path of files opened for reading through the seam (for positional reads)


class _SimOs:
    """Stands in for the `os` module object referenced by mtscomp: os.pread on a file opened through the seam is a
    read event (mtscomp reads compressed chunks with positional reads)."""

    def __getattr__(self, name):
        return getattr(os, name)

    @staticmethod
    def pread(fd, n, offset):
        pth = _READ_FDS.get(fd)
        if pth is not None and SIM.active and SIM.read_events:
            event("read", pth)
        return os.pread(fd, n, offset)


class SimReadFile:
    """Wrapper over a real binary file opened for reading: every read() is an event (EIO on the source)."""

    def __init__(self, f, path):
        self._f = f
        self._path = os.fspath(path)
        _READ_FDS[f.fileno()] = self._path

    def __getattr__(self, name):
        return getattr(self._f, name)

    def close(self):
        _READ_FDS.pop(self._f.fileno(), None) if not self._f.closed else None
        return self._f.close()

    def __enter__(self):
        return self

    def __exit__(self, *a):
        self._f.close()
        return False

    def __iter__(self):
        return iter(self._f)

    def read(self, *a):
        event("read", self._path)
        return self._f.read(*a)

    def readinto(self, b):
        event("read", self._path)
        return self._f.readinto(b)


def _flip_byte(path, pos0, pos1):
    """Silent corruption of a completed write: one stored byte differs from what was written."""
    f = SIM.fault
    n = pos1 - pos0
    if n <= 0:
        SIM.fired = {"kind": "corrupt_ignored", "at": f["at"], "label": SIM.events[-1]}
        return
    frac = 0.5 if f.get("tear") is None else float(f["tear"])
    p = pos0 + min(n - 1, int(frac * n))
    fd = os.open(path, os.O_RDWR)
    try:
        b = os.pread(fd, 1, p)
        os.pwrite(fd, bytes([b[0] ^ 0x40]), p)
    finally:
        os.close(fd)
    SIM.fired = {"kind": "corrupt", "at": f["at"], "label": SIM.events[-1], "byte": p}


def _tear_len(tear, n):
    """tear is a fraction in (0,1) of the write that survives; at least 1 and at most n-1 bytes
    (n >= 2), so a torn write is always a strict, non-empty prefix."""
    if n <= 1:
        return 0
    frac = 0.5 if tear is None else float(tear)
    return max(1, min(n - 1, int(frac * n)))


def _called_from_tofile():
    # ndarray.tofile is a C function, so the Python frame that called *it* is the direct caller
    # of SimFile.flush().  A plain f.flush() written in Python has a caller that names `flush`.
    fr = sys._getframe(2)
    names = fr.f_code.co_names
    return "tofile" in names and "flush" not in names


def sim_open(file, mode="r", *a, **kw):
    if not SIM.active:
        return _real_open(file, mode, *a, **kw)
    if isinstance(file, int):
        return _real_open(file, mode, *a, **kw)
    writable = any(c in mode for c in "wxa+")
    if not writable:
        if SIM.read_events and "b" in mode:
            return SimReadFile(_real_open(file, mode, *a, **kw), file)
        return _real_open(file, mode, *a, **kw)
    if "w" in mode or "x" in mode:
        event("open-" + mode.replace("b", "").replace("t", "") + ("b" if "b" in mode else ""), file)
    else:
        event("open-" + mode, file, can_error=True)
    f = _real_open(file, mode, *a, **kw)
    return SimFile(f, file, mode)


# -- pathlib / shutil -----------------------------------------------------------------------

def _p_rename(self, target):
    event("rename", self, path2=target)
    return _real["rename"](self, target)


def _p_replace(self, target):
    event("replace", self, path2=target)
    return _real["replace"](self, target)


def _p_unlink(self, missing_ok=False):
    event("unlink", self)
    return _real["unlink"](self, missing_ok=missing_ok)


def _p_mkdir(self, mode=0o777, parents=False, exist_ok=False):
    if SIM.active and not os.path.isdir(self):
        event("mkdir", self)
    return _real["mkdir"](self, mode=mode, parents=parents, exist_ok=exist_ok)


class _SimShutil:
    """Stands in for the `shutil` module object referenced by a repo module."""

    def __getattr__(self, name):
        return getattr(_shutil, name)

    @staticmethod
    def move(src, dst, *a, **kw):
        act = event("move", src, path2=dst)
        if act == "tear":
            # cross-filesystem move = copy + unlink; the process dies while the copy is half done
            f = SIM.fault
            with _real_open(src, "rb") as a_, _real_open(dst, "wb") as b_:
                data = a_.read()
                p = _tear_len(f.get("tear"), len(data))
                b_.write(data[:p])
            SIM.fired = {"kind": "torn", "at": f["at"], "label": SIM.events[-1], "kept": p, "of": len(data), "note": "cross-directory move died mid-copy"}
            die(SIM.fired)
        if act == "short":
            _short_copy(src, dst, "cross-directory move failed mid-copy")
        return _real["move"](src, dst, *a, **kw)

    @staticmethod
    def copy(src, dst, *a, **kw):
        act = event("copy", src, path2=dst)
        if act == "short":
            _short_copy(src, dst, "copy failed part-way")
        return _real["copy"](src, dst, *a, **kw)


def _short_copy(src, dst, note):
    f = SIM.fault
    if os.path.isdir(dst):
        dst = os.path.join(dst, os.path.basename(os.fspath(src)))
    with _real_open(src, "rb") as a_, _real_open(dst, "wb") as b_:
        data = a_.read()
        p = _tear_len(f.get("tear"), len(data))
        b_.write(data[:p])
    SIM.fired = {"kind": "short", "at": f["at"], "label": SIM.events[-1], "kept": p, "of": len(data), "note": note}
    raise OSError(f.get("errno", errno.ENOSPC), "simulated short copy", os.fspath(dst))


_installed = [False]


def install(modules):
    """Rebind the seams.  `modules` are module objects whose global `open` is shadowed."""
    for m in modules:
        m.__dict__["open"] = sim_open
        if "shutil" in m.__dict__:
            m.__dict__["shutil"] = _SimShutil()
        if m.__name__ == "mtscomp" and "os" in m.__dict__:
            m.__dict__["os"] = _SimOs()
    if not _installed[0]:
        _P.rename = _p_rename
        _P.replace = _p_replace
        _P.unlink = _p_unlink
        _P.mkdir = _p_mkdir
        _installed[0] = True


def uninstall(modules):
    for m in modules:
        m.__dict__.pop("open", None)
        if "shutil" in m.__dict__:
            m.__dict__["shutil"] = _shutil
        if m.__name__ == "mtscomp" and "os" in m.__dict__:
            m.__dict__["os"] = os
    _P.rename = _real["rename"]
    _P.replace = _real["replace"]
    _P.unlink = _real["unlink"]
    _P.mkdir = _real["mkdir"]
    _installed[0] = False


def label_class(label):
    """Class of an event label: operation + kind of file (suffixes), without directories' shank
    letter or occurrence.  e.g. 'write:probe00a/x.ap.cbin_tmp' -> 'write:.ap.cbin_tmp'"""
    op, _, rest = label.partition(":")
    if op in ("enter", "exit"):
        return label
    parts = rest.split("->")

    def kind(p):
        base = os.path.basename(p)
        i = base.find(".")
        return base[i:] if i >= 0 else ("<dir>" if base else "")

    return op + ":" + "->".join(kind(p) for p in parts)
