"""Independent decoder of the mtscomp .cbin/.ch format (no mtscomp code involved).

Format (v1.0): .ch is JSON with chunk_bounds (in samples), chunk_offsets (in bytes),
dtype, n_channels, chunk_order, do_time_diff, do_spatial_diff; each chunk is a zlib stream
of the (optionally differenced) chunk in the given memory order.
"""
import json
import zlib
from pathlib import Path

import numpy as np


class CbinError(Exception):
    pass


def decode_cbin(cbin, ch=None):
    """Returns the decoded (ns, nc) array; raises CbinError if the pair is not a complete,
    self-consistent compressed recording."""
    cbin = Path(cbin)
    ch = Path(ch) if ch is not None else cbin.with_suffix(".ch")
    try:
        meta = json.loads(ch.read_text())
        blob = cbin.read_bytes()
    except (OSError, ValueError) as e:
        raise CbinError(f"unreadable: {e!r}")
    try:
        bounds = meta["chunk_bounds"]
        offs = meta["chunk_offsets"]
        nc = int(meta["n_channels"])
        dt = np.dtype(meta["dtype"])
        order = meta.get("chunk_order", "F")
    except KeyError as e:
        raise CbinError(f"header lacks {e}")
    if len(bounds) != len(offs) or offs[0] != 0 or bounds[0] != 0:
        raise CbinError("inconsistent header")
    if offs[-1] != len(blob):
        raise CbinError(f"body has {len(blob)} bytes, header says {offs[-1]}")
    parts = []
    for i in range(len(bounds) - 1):
        try:
            raw = zlib.decompress(blob[offs[i]:offs[i + 1]])
        except zlib.error as e:
            raise CbinError(f"chunk {i}: {e}")
        n = bounds[i + 1] - bounds[i]
        a = np.frombuffer(raw, dt)
        if a.size != n * nc:
            raise CbinError(f"chunk {i}: size")
        a = a.reshape((n, nc), order=order)
        if meta.get("do_spatial_diff"):
            a = np.cumsum(a, axis=1, dtype=dt)
        if meta.get("do_time_diff"):
            a = np.cumsum(a, axis=0, dtype=dt)
        parts.append(np.ascontiguousarray(a))
    if not parts:
        return np.zeros((0, nc), dt)
    return np.concatenate(parts, axis=0)


def cbin_is(cbin, expected, ch=None):
    """True iff the pair decodes to exactly `expected` (array)."""
    try:
        d = decode_cbin(cbin, ch)
    except CbinError:
        return False
    return d.shape == expected.shape and d.dtype == expected.dtype and np.array_equal(d, expected)
