"""NumPy/SciPy stand-in for the two pyfftw calls used by ibldsp.voltage.decompress_destripe_cbin
(pyfftw is absent from the sandbox).  Single-precision transforms via scipy.fft (pocketfft), same
calling convention as pyfftw.FFTW objects: the call copies its input into the plan's input
buffer, executes, and returns the plan's (reused) output buffer."""
import numpy as np
import scipy.fft

__version__ = "0.0-verif-standin"


def empty_aligned(shape, dtype="float64", order="C", n=None):
    return np.empty(shape, dtype=dtype, order=order)


def zeros_aligned(shape, dtype="float64", order="C", n=None):
    return np.zeros(shape, dtype=dtype, order=order)


class FFTW:
    def __init__(self, input_array, output_array, axes=(-1,), direction="FFTW_FORWARD", flags=(),
                 threads=1, **kw):
        self.input_array = input_array
        self.output_array = output_array
        self.axes = tuple(axes)
        self.direction = direction
        if len(self.axes) != 1:
            raise NotImplementedError("stand-in supports one transform axis")

    def __call__(self, input_array=None, output_array=None, normalise_idft=True, **kw):
        if input_array is not None:
            a = np.asanyarray(input_array)
            if a.shape != self.input_array.shape:
                raise ValueError("Invalid shape: The new input array should be the same shape as the input array used to instantiate the object.")
            self.input_array[...] = a
        ax = self.axes[0]
        if self.direction == "FFTW_FORWARD":
            if np.iscomplexobj(self.input_array):
                self.output_array[...] = scipy.fft.fft(self.input_array, axis=ax)
            else:
                self.output_array[...] = scipy.fft.rfft(self.input_array, axis=ax)
        else:
            if np.iscomplexobj(self.output_array):
                r = scipy.fft.ifft(self.input_array, axis=ax)
            else:
                r = scipy.fft.irfft(self.input_array, n=self.output_array.shape[ax], axis=ax)
            if not normalise_idft:
                r = r * self.output_array.shape[ax]
            self.output_array[...] = r
        return self.output_array
